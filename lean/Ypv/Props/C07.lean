import Ypv.Lemmas.Search
import Ypv.Lemmas.SearchPath
import Ypv.Lemmas.SearchNodup
/-!
# C07 — yaml-paths search is sound and complete, and every printed path resolves

Model: `Ypv.Search.search` (`Model/Search.lean`, mirror of `search_for_paths` / `yield_children` /
`Searches.search_anchor` as they read after `fixes/C07-1 … 7`).  Specification: `Spec.found`
(`Spec/Search.lean`): one pass over the positions of the document in document order with one rule
per position.  Documents are `SNode` (= `Node` plus anchored keys and merge keys; `ofNode` embeds
`Node`), the term test is any `μ : Scalar → Bool` (the driver instantiates it with
`Ypv.searchMatches` + the inversion test), the options are all seven Booleans of `Opts`
(`optsOfCli` is `main()`'s option handling).
-/
namespace Ypv.C07
open Ypv Ypv.Search Ypv.Search.Rr

/-- **Soundness and completeness.**  For every document, every term test and every option mix the
addresses the search reports, in order, are exactly `Spec.found`: every value — with key-name
search every key, with reference-name search every anchor / merge reference — that satisfies the
expression and is reached by the pass; an aliased repeat of an anchored value only when value
aliases are asked for, the name of an aliased key only when key aliases are asked for; nothing else. -/
theorem search_eq_found (c : Ctx) (d : SNode) : (search c d).map Hit.addr = Spec.found c d := by
  cases d with
  | scalar a v =>
    simp only [search, sNode, Spec.found, rootFix]
    by_cases h : v = .null
    · simp [h]
    · simp [h, valueHit_addr]
  | seq a items =>
    have := s_node c (.seq a items) [] [] [] [] rfl
    simpa [search, Spec.found, scan_nil] using this.symm
  | map a o m r =>
    have := s_node c (.map a o m r) [] [] [] [] rfl
    simpa [search, Spec.found, scan_nil] using this.symm
  | set a ms =>
    have := s_node c (.set a ms) [] [] [] [] rfl
    simpa [search, Spec.found, scan_nil] using this.symm

/-- the same for the common document type `Node` -/
theorem search_eq_found_node (c : Ctx) (d : Node) :
    (search c (ofNode d)).map Hit.addr = Spec.found c (ofNode d) := search_eq_found c (ofNode d)

/-- **Nothing else is reported**: every reported address is the address of a position of the
document (or the root of a scalar document). -/
theorem found_is_position (c : Ctx) (d : SNode) (a : SAddr) (h : a ∈ (search c d).map Hit.addr) :
    a = [] ∨ ∃ p ∈ Spec.flat d [], p.addr = a := by
  rw [search_eq_found] at h
  cases d with
  | scalar _ v =>
    left
    simp only [Spec.found] at h
    split at h <;> simp_all
  | seq _ _ => exact Or.inr (scan_sub c _ _ _ a h)
  | map _ _ _ _ => exact Or.inr (scan_sub c _ _ _ a h)
  | set _ _ => exact Or.inr (scan_sub c _ _ _ a h)

/-- **In document order.**  The reported addresses are a sub-list (`List.Sublist`: same order, some
left out) of the addresses of the positions of the document in document order — for every document,
term test and option mix.  (A scalar document reports at most its root.) -/
theorem search_in_document_order (c : Ctx) (d : SNode) (hd : d.isContainer = true) :
    ((search c d).map Hit.addr).Sublist ((Spec.flat d []).map Spec.Pos.addr) := by
  rw [search_eq_found]
  have h := Nd.scan_sublist c (Spec.flat d []) [] 0
  simp only [List.drop_zero] at h
  cases d with
  | scalar _ _ => simp [SNode.isContainer] at hd
  | seq _ _ => exact h
  | map _ _ _ _ => exact h
  | set _ _ => exact h

/-- **Each at most once.**  For a well-formed document (`Spec.wfKeys`: every mapping has pairwise
different keys — own and inherited entries together —, every set pairwise different members; that is
what YAML mappings / sets are) no address is reported twice — whatever the term test and the options,
aliased repeats asked for or not (an aliased repeat is another position: the same value at another
address).  Proof: `scan` / `leaves` list a sub-list of the position addresses (`Nd.scan_sublist`,
`Nd.leaves_sublist`) and the position addresses of a well-formed document are pairwise different
(`Nd.flat_nodup`, mutual induction: addresses below different children differ in the step after the
common prefix). -/
theorem search_reports_once (c : Ctx) (d : SNode) (hw : Spec.wfKeys d = true) :
    ((search c d).map Hit.addr).Nodup := by
  rw [search_eq_found]
  exact Nd.found_nodup c d hw

/-- the position addresses of a well-formed document are pairwise different -/
theorem positions_distinct (d : SNode) (ad : SAddr) (hw : Spec.wfKeys d = true) :
    ((Spec.flat d ad).map Spec.Pos.addr).Nodup := Nd.flat_nodup d ad hw

/-- **Expansion.**  With `expand_children` on, a matched container is replaced by exactly the
list `Spec.leaves` of the positions below it: what "yield the match" (`emit`) contributes for a
matched container `n` at address `a'` is the expansion pass over `flat n a'` … -/
theorem expand_is_leaves (c : Ctx) (hx : c.o.expand = true) (n : SNode) (hn : n.isContainer = true)
    (tmp : Str) (a' : SAddr) (seen : List Str) :
    (emit c n tmp a' seen).1.map Hit.addr = (Spec.leaves c seen 0 (Spec.flat n a')).1 := by
  have := yc_node c n tmp a' seen [] hn
  simp only [List.append_nil] at this
  simp [emit, hx, this, andThen, Spec.leaves]

/-- … and that pass lists only leaves: every listed address is the address of a position below the
matched parent that is not a container (a scalar value or a set member); the parent itself is not
among them. -/
theorem expand_lists_leaves_only (c : Ctx) (n : SNode) (a' : SAddr) (seen : List Str) (a : SAddr)
    (h : a ∈ (Spec.leaves c seen 0 (Spec.flat n a')).1) :
    ∃ p ∈ Spec.flat n a', p.addr = a ∧ p.kind ≠ .container :=
  leaves_sub c _ seen 0 a h

/-- without expansion a matched position is reported as itself -/
theorem no_expand_is_self (c : Ctx) (hx : c.o.expand = false) (n : SNode) (tmp : Str) (a' : SAddr)
    (seen : List Str) : (emit c n tmp a' seen).1.map Hit.addr = [a'] := by
  simp [emit, hx]

/-- **Every printed path resolves to exactly the matched node.**  Take any hit of the search: its path
text `h.path` is printed the way `yaml-paths` prints it (`printed` = `str(YAMLPath(text))`, the C08
object model).  Printing succeeds; the printed text `S`, parsed by the parser model in the notation it
was printed in, is a list `segs` of KEY / INDEX / ANCHOR segments; and the resolver `resolve`
(`Spec/SearchResolve.lean`: `_get_nodes_by_key / _by_index / _by_anchor` on `SNode`) follows `segs`
from the root to exactly one address — the address the hit was reported for.

Hypothesis `okAddr`: none of the recorded finding classes lies on the way to the address (all clauses
decidable, local to the parents on the way): no other key of a mapping on the way is written the same
(**K1**, `1` next to `'1'`); keys and anchor names on the way are expressible in the notation (**K2**:
not empty, no `*`, not starting with `&`, …) and hold no two adjacent backslashes (**K6**, found by this
proof: `ensure_escaped` takes the pair for an escaped backslash); a merge reference's name is carried by nothing else in the mapping
(its source may be empty since fix 87356f5, formerly **K5**); an anchored sequence element is the only
one of its sequence with that anchor (an aliased repeat in the same sequence is one Python object at two
addresses — `[&a]` then denotes both).  Witnesses of K1 / K2 / K6 below.

Proof: `hits_walk` (mutual induction over the six search functions: the text is `pathText` of a walk to
the address), `escapePathSection_eq` (the twelve `ensure_escaped` passes and the leading-slash rule are
the token writer of C08), `roundtrip_texts` (C08's engine: parse unescaped → render → parse) and
`resolve_walk`. -/
theorem search_paths_reresolve (c : Ctx) (d : SNode) (h : Hit) (hh : h ∈ search c d)
    (hok : okAddr (liveIn d) d h.addr = true) :
    ∃ S segs, printed h.path = .ok S ∧ parseWith c.o.fslash true S = .ok segs ∧
      resolve (liveIn d) d segs = [h.addr] := by
  obtain ⟨ps, hw, hp⟩ := hits_walk c d h hh
  obtain ⟨hr, hs⟩ := resolve_walk (liveIn d) hw hok
  obtain ⟨S, h1, h2⟩ := printed_parse c ps hs (walk_noInner hw)
  exact ⟨S, ps.map PStep.seg, hp ▸ h1, h2, hr⟩

/-- the unprinted text (what `search_for_paths` yields before `str()`) parses to the same segments -/
theorem search_paths_walk (c : Ctx) (d : SNode) (h : Hit) (hh : h ∈ search c d) :
    ∃ ps, Walk d h.addr ps ∧ h.path = pathText c [] ps := hits_walk c d h hh

/-- **`escape_path_section` is the C08 writer's escaping**: for every text without two adjacent
backslashes the 12-pass `ensure_escaped` fold escapes exactly the special characters (`escText`), plus —
in dot notation — a leading `/` (fix e9c869e). -/
theorem escapePathSection_is_escText (sep : Char) (hsep : sep = '.' ∨ sep = '/') (t : Str)
    (h : noDbl t = true) :
    escapePathSection sep t =
      (if (escText sep t).head? = some '/' ∧ sep ≠ '/' then '\\' :: escText sep t else escText sep t) := by
  unfold escapePathSection
  simp only [ensureEscaped_section hsep t h]

/-- **`--pathsep auto` prints dot notation.**  `yaml-paths` accepts three separators (`Sep`); everything the
search and `escape_path_section` ask of the one they are given is `is FSLASH` / `str()`, which AUTO answers as
DOT does — so a search run with AUTO is, hit for hit and character for character, the search run with DOT
(leading-slash protection of a top-level key included). -/
theorem search_auto_is_dot (o : Opts) (μ : Scalar → Bool) (d : SNode) :
    search ⟨o.withSep .auto, μ⟩ d = search ⟨o.withSep .dot, μ⟩ d := rfl

/-- **Every printed path resolves, whichever of the three separators `--pathsep` hands to the search**:
`search_paths_reresolve` for the options `o.withSep s`; the notation the path was printed in — and is parsed in —
is forward-slash for FSLASH and dot for DOT and for AUTO. -/
theorem search_paths_reresolve_sep (s : Sep) (o : Opts) (μ : Scalar → Bool) (d : SNode) (h : Hit)
    (hh : h ∈ search ⟨o.withSep s, μ⟩ d) (hok : okAddr (liveIn d) d h.addr = true) :
    ∃ S segs, printed h.path = .ok S ∧ parseWith s.isFslash true S = .ok segs ∧
      resolve (liveIn d) d segs = [h.addr] :=
  search_paths_reresolve ⟨o.withSep s, μ⟩ d h hh hok

/-! ## Concrete instances (the hypotheses are met, the functions compute) -/

/-- `a: &x {k: v}`, `b: *x`, `c: [&s v, *s]` -/
def demoDoc : SNode :=
  .map none
    [(⟨none, .str "a".toList⟩, .map (some "x".toList) [(⟨none, .str "k".toList⟩, .scalar none (.str "v".toList))] [] []),
     (⟨none, .str "b".toList⟩, .map (some "x".toList) [(⟨none, .str "k".toList⟩, .scalar none (.str "v".toList))] [] []),
     (⟨none, .str "c".toList⟩, .seq none [.scalar (some "s".toList) (.str "v".toList),
                                          .scalar (some "s".toList) (.str "v".toList)])] [] []

/-- the term test `=v` -/
def demoCtx (o : Opts) : Ctx := ⟨o, fun s => s == .str "v".toList⟩

/-- default options: the aliased repeats `b.k` and `c[1]` are not reported -/
example : (search (demoCtx {}) demoDoc).map Hit.path = ["a.k".toList, "c[&s]".toList] := by decide +kernel
/-- with value aliases included they are -/
example : (search (demoCtx { inclValueAliases := true }) demoDoc).map Hit.path =
    ["a.k".toList, "b.k".toList, "c[&s]".toList, "c[&s]".toList] := by decide +kernel
example : Spec.found (demoCtx {}) demoDoc = [[.key (.str "a".toList), .key (.str "k".toList)],
    [.key (.str "c".toList), .idx 0]] := by decide +kernel
/-- key-name search with expansion: the matched key `a` is replaced by its leaf -/
example : (search ⟨{ searchKeys := true, expand := true, fslash := true }, fun s => s == .str "a".toList⟩ demoDoc).map
    Hit.path = ["/a/k".toList] := by decide +kernel

/-! ## Known finding: a key and its text as another key (`{1: x, '1': y}`)

The path notation writes the integer key `1` and the string key `'1'` the same way; the search
reports two different addresses under one path text (so the printed path cannot denote both). -/
def clashDoc : SNode :=
  .map none [(⟨none, .int 1⟩, .scalar none (.str "x".toList)), (⟨none, .str "1".toList⟩, .scalar none (.str "y".toList))] [] []

example : (search ⟨{}, fun _ => true⟩ clashDoc) =
    [⟨"1".toList, [.key (.int 1)]⟩, ⟨"1".toList, [.key (.str "1".toList)]⟩] := by decide +kernel

/-! ## Re-resolution: the hypotheses are met, the chain computes; witnesses of the excluded classes -/

/-- print, parse in the notation of the search, resolve: does the hit come back as exactly its address? -/
def reresolves (c : Ctx) (d : SNode) (h : Hit) : Bool :=
  match printed h.path with
  | .ok S =>
    match parseWith c.o.fslash true S with
    | .ok segs => resolve (liveIn d) d segs == [h.addr]
    | .error _ => false
  | .error _ => false

/-- `a.b: [&s x, y]`, `/k: {k: &v v, <<: *b}` (merge reference known as `b`, inherited entry `i`),
`b: &b {i: w}`, `s t: !!set {m/n}`, `1: x` -/
def rrDoc : SNode :=
  .map none
    [(⟨none, .str "a.b".toList⟩, .seq none [.scalar (some "s".toList) (.str "x".toList), .scalar none (.str "y".toList)]),
     (⟨none, .str "/k".toList⟩, .map none [(⟨none, .str "k".toList⟩, .scalar (some "v".toList) (.str "v".toList))]
        [(⟨none, .str "i".toList⟩, .scalar none (.str "w".toList))] ["b".toList]),
     (⟨none, .str "b".toList⟩, .map (some "b".toList) [(⟨none, .str "i".toList⟩, .scalar none (.str "w".toList))] [] []),
     (⟨none, .str "s t".toList⟩, .set none [⟨none, .str "m/n".toList⟩]),
     (⟨none, .int 1⟩, .scalar none (.str "x".toList))] [] []

def allCtx (fslash : Bool) : Ctx :=
  ⟨{ searchKeys := true, searchAnchors := true, inclValueAliases := true, fslash := fslash }, fun _ => true⟩
def valCtx (fslash : Bool) : Ctx := ⟨{ inclValueAliases := true, searchAnchors := true, fslash := fslash }, fun _ => true⟩

/-- the hits with value and reference-name search, dot notation (the merge reference is yielded as
`\/k.[&b]` and printed `\/k[&b]`) … -/
def rrHits : List Hit :=
  [⟨"a\\.b[&s]".toList, [.key (.str "a.b".toList), .idx 0]⟩, ⟨"a\\.b[1]".toList, [.key (.str "a.b".toList), .idx 1]⟩,
   ⟨"\\/k.k".toList, [.key (.str "/k".toList), .key (.str "k".toList)]⟩,
   ⟨"\\/k.i".toList, [.key (.str "/k".toList), .key (.str "i".toList)]⟩,
   ⟨"\\/k.[&b]".toList, [.key (.str "/k".toList), .mref 0]⟩, ⟨"b".toList, [.key (.str "b".toList)]⟩,
   ⟨"s\\ t.m/n".toList, [.key (.str "s t".toList), .member (.str "m/n".toList)]⟩, ⟨"1".toList, [.key (.int 1)]⟩]
example : search (valCtx false) rrDoc = rrHits := by decide +kernel
example : printed "\\/k.[&b]".toList = .ok "\\/k[&b]".toList ∧
    printed "s\\ t.m/n".toList = .ok "s\\ t.m/n".toList := by decide +kernel
/-- … every one of them meets the hypothesis of `search_paths_reresolve` and comes back as its address -/
example : (rrHits.all fun h => okAddr (liveIn rrDoc) rrDoc h.addr && reresolves (valCtx false) rrDoc h) = true := by
  decide +kernel
/-- the same in forward-slash notation -/
example : (search (valCtx true) rrDoc).map Hit.path =
    ["/a.b[&s]".toList, "/a.b[1]".toList, "/\\/k/k".toList, "/\\/k/i".toList, "/\\/k/[&b]".toList, "/b".toList,
     "/s\\ t/m\\/n".toList, "/1".toList] := by decide +kernel
example : reresolves (valCtx true) rrDoc ⟨"/\\/k/[&b]".toList, [.key (.str "/k".toList), .mref 0]⟩ = true ∧
    reresolves (valCtx true) rrDoc ⟨"/s\\ t/m\\/n".toList, [.key (.str "s t".toList), .member (.str "m/n".toList)]⟩ = true := by
  decide +kernel

/-- `--pathsep auto`: the top-level key `/k` is printed with its protective backslash, as in dot notation, and
every hit comes back as its address when the printed text is read in dot notation -/
example : (search ⟨({ inclValueAliases := true, searchAnchors := true } : Opts).withSep .auto, fun _ => true⟩ rrDoc) = rrHits := by
  decide +kernel
example : (rrHits.all fun h => reresolves ⟨({ inclValueAliases := true, searchAnchors := true } : Opts).withSep .auto, fun _ => true⟩ rrDoc h) = true := by
  decide +kernel

/-- **K1** (`{1: x, '1': y}`): the hypothesis fails, and the printed `1` resolves to both entries -/
example : okAddr (liveIn clashDoc) clashDoc [.key (.int 1)] = false ∧
    reresolves ⟨{}, fun _ => true⟩ clashDoc ⟨"1".toList, [.key (.int 1)]⟩ = false ∧
    resolve (liveIn clashDoc) clashDoc [(.key, .str "1".toList)] = [[.key (.int 1)], [.key (.str "1".toList)]] := by
  decide +kernel

/-- **K2** (`{'a*': a}`): `a*` is printed, which is a wildcard search, not a key -/
def starDoc : SNode := .map none [(⟨none, .str "a*".toList⟩, .scalar none (.str "a".toList))] [] []
example : search ⟨{}, fun _ => true⟩ starDoc = [⟨"a*".toList, [.key (.str "a*".toList)]⟩] ∧
    okAddr (liveIn starDoc) starDoc [.key (.str "a*".toList)] = false ∧
    reresolves ⟨{}, fun _ => true⟩ starDoc ⟨"a*".toList, [.key (.str "a*".toList)]⟩ = false := by decide +kernel

/-- formerly **K5** (`z: &z {}`, `m: {<<: *z}`): before fix 87356f5 the empty merge source was falsy and
`m[&z]` found nothing; now the hypothesis holds and the printed path comes back as its address -/
def emptySrcDoc : SNode :=
  .map none [(⟨none, .str "z".toList⟩, .map (some "z".toList) [] [] []),
             (⟨none, .str "m".toList⟩, .map none [] [] ["z".toList])] [] []
example : search (valCtx false) emptySrcDoc =
      [⟨"z".toList, [.key (.str "z".toList)]⟩, ⟨"m.[&z]".toList, [.key (.str "m".toList), .mref 0]⟩] ∧
    okAddr (liveIn emptySrcDoc) emptySrcDoc [.key (.str "m".toList), .mref 0] = true ∧
    reresolves (valCtx false) emptySrcDoc ⟨"m.[&z]".toList, [.key (.str "m".toList), .mref 0]⟩ = true := by
  decide +kernel

/-- **K6** (found by the proof of `escapePathSection_eq`): a key with two adjacent backslashes.
`escape_path_section('a\\b')` (four characters) is `a\\b` unchanged — the first `ensure_escaped` pass takes
the pair for an escaped backslash — and that text denotes the key `a\b` (three characters). -/
def dblDoc : SNode := .map none [(⟨none, .str ['a', '\\', '\\', 'b']⟩, .scalar none (.str "x".toList))] [] []
example : escapePathSection '.' ['a', '\\', '\\', 'b'] = ['a', '\\', '\\', 'b'] ∧
    escText '.' ['a', '\\', '\\', 'b'] = ['a', '\\', '\\', '\\', '\\', 'b'] ∧
    parse true ['a', '\\', '\\', 'b'] = .ok [(.key, .str ['a', '\\', 'b'])] ∧
    search ⟨{}, fun _ => true⟩ dblDoc = [⟨['a', '\\', '\\', 'b'], [.key (.str ['a', '\\', '\\', 'b'])]⟩] ∧
    okAddr (liveIn dblDoc) dblDoc [.key (.str ['a', '\\', '\\', 'b'])] = false ∧
    reresolves ⟨{}, fun _ => true⟩ dblDoc ⟨['a', '\\', '\\', 'b'], [.key (.str ['a', '\\', '\\', 'b'])]⟩ = false := by
  decide +kernel

/-! ## Each at most once: the hypothesis is met; without it the statement fails -/

example : Spec.wfKeys demoDoc = true ∧ Spec.wfKeys rrDoc = true ∧ Spec.wfKeys clashDoc = true := by decide +kernel
/-- with value aliases asked for the aliased repeats are reported — at their own addresses -/
example : ((search (demoCtx { inclValueAliases := true }) demoDoc).map Hit.addr) =
    [[.key (.str "a".toList), .key (.str "k".toList)], [.key (.str "b".toList), .key (.str "k".toList)],
     [.key (.str "c".toList), .idx 0], [.key (.str "c".toList), .idx 1]] := by decide +kernel
/-- not a YAML mapping (`{a: v, a: v}`): the hypothesis fails and the address is reported twice -/
def dupKeyDoc : SNode :=
  .map none [(⟨none, .str "a".toList⟩, .scalar none (.str "v".toList)),
             (⟨none, .str "a".toList⟩, .scalar none (.str "v".toList))] [] []
example : Spec.wfKeys dupKeyDoc = false ∧
    (search (demoCtx {}) dupKeyDoc).map Hit.addr = [[.key (.str "a".toList)], [.key (.str "a".toList)]] := by
  decide +kernel

end Ypv.C07
