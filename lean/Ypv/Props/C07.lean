/-! C07 — property theorems (stub; no obligations yet) -/
