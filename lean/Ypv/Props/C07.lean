import Ypv.Lemmas.Search
/-!
# C07 — yaml-paths search is sound and complete, and every printed path resolves

Model: `Ypv.Search.search` (`Model/Search.lean`, mirror of `search_for_paths` / `yield_children` /
`Searches.search_anchor` as they read after `fixes/C07-1 … 7`).  Specification: `Spec.found`
(`Spec/Search.lean`): one pass over the positions of the document in document order with one rule
per position.  Documents are `SNode` (= `Node` plus anchored keys and merge keys; `ofNode` embeds
`Node`), the term test is any `μ : Scalar → Bool` (the driver instantiates it with
`Ypv.searchMatches` + the inversion test), the options are all seven Booleans of `Opts`
(`optsOfCli` is `main()`'s option handling).
-/
namespace Ypv.C07
open Ypv Ypv.Search

/-- **Soundness and completeness.**  For every document, every term test and every option mix the
addresses the search reports, in order, are exactly `Spec.found`: every value — with key-name
search every key, with reference-name search every anchor / merge reference — that satisfies the
expression and is reached by the pass; an aliased repeat of an anchored value only when value
aliases are asked for, the name of an aliased key only when key aliases are asked for; nothing else. -/
theorem search_eq_found (c : Ctx) (d : SNode) : (search c d).map Hit.addr = Spec.found c d := by
  cases d with
  | scalar a v =>
    simp only [search, sNode, Spec.found, rootFix]
    by_cases h : v = .null
    · simp [h]
    · simp [h, valueHit_addr]
  | seq a items =>
    have := s_node c (.seq a items) [] [] [] [] rfl
    simpa [search, Spec.found, scan_nil] using this.symm
  | map a o m r =>
    have := s_node c (.map a o m r) [] [] [] [] rfl
    simpa [search, Spec.found, scan_nil] using this.symm
  | set a ms =>
    have := s_node c (.set a ms) [] [] [] [] rfl
    simpa [search, Spec.found, scan_nil] using this.symm

/-- the same for the common document type `Node` -/
theorem search_eq_found_node (c : Ctx) (d : Node) :
    (search c (ofNode d)).map Hit.addr = Spec.found c (ofNode d) := search_eq_found c (ofNode d)

/-- **Nothing else is reported**: every reported address is the address of a position of the
document (or the root of a scalar document). -/
theorem found_is_position (c : Ctx) (d : SNode) (a : SAddr) (h : a ∈ (search c d).map Hit.addr) :
    a = [] ∨ ∃ p ∈ Spec.flat d [], p.addr = a := by
  rw [search_eq_found] at h
  cases d with
  | scalar _ v =>
    left
    simp only [Spec.found] at h
    split at h <;> simp_all
  | seq _ _ => exact Or.inr (scan_sub c _ _ _ a h)
  | map _ _ _ _ => exact Or.inr (scan_sub c _ _ _ a h)
  | set _ _ => exact Or.inr (scan_sub c _ _ _ a h)

/-- **Expansion.**  With `expand_children` on, a matched container is replaced by exactly the
list `Spec.leaves` of the positions below it: what "yield the match" (`emit`) contributes for a
matched container `n` at address `a'` is the expansion pass over `flat n a'` … -/
theorem expand_is_leaves (c : Ctx) (hx : c.o.expand = true) (n : SNode) (hn : n.isContainer = true)
    (tmp : Str) (a' : SAddr) (seen : List Str) :
    (emit c n tmp a' seen).1.map Hit.addr = (Spec.leaves c seen 0 (Spec.flat n a')).1 := by
  have := yc_node c n tmp a' seen [] hn
  simp only [List.append_nil] at this
  simp [emit, hx, this, andThen, Spec.leaves]

/-- … and that pass lists only leaves: every listed address is the address of a position below the
matched parent that is not a container (a scalar value or a set member); the parent itself is not
among them. -/
theorem expand_lists_leaves_only (c : Ctx) (n : SNode) (a' : SAddr) (seen : List Str) (a : SAddr)
    (h : a ∈ (Spec.leaves c seen 0 (Spec.flat n a')).1) :
    ∃ p ∈ Spec.flat n a', p.addr = a ∧ p.kind ≠ .container :=
  leaves_sub c _ seen 0 a h

/-- without expansion a matched position is reported as itself -/
theorem no_expand_is_self (c : Ctx) (hx : c.o.expand = false) (n : SNode) (tmp : Str) (a' : SAddr)
    (seen : List Str) : (emit c n tmp a' seen).1.map Hit.addr = [a'] := by
  simp [emit, hx]

/-! ## Concrete instances (the hypotheses are met, the functions compute) -/

/-- `a: &x {k: v}`, `b: *x`, `c: [&s v, *s]` -/
def demoDoc : SNode :=
  .map none
    [(⟨none, .str "a".toList⟩, .map (some "x".toList) [(⟨none, .str "k".toList⟩, .scalar none (.str "v".toList))] [] []),
     (⟨none, .str "b".toList⟩, .map (some "x".toList) [(⟨none, .str "k".toList⟩, .scalar none (.str "v".toList))] [] []),
     (⟨none, .str "c".toList⟩, .seq none [.scalar (some "s".toList) (.str "v".toList),
                                          .scalar (some "s".toList) (.str "v".toList)])] [] []

/-- the term test `=v` -/
def demoCtx (o : Opts) : Ctx := ⟨o, fun s => s == .str "v".toList⟩

/-- default options: the aliased repeats `b.k` and `c[1]` are not reported -/
example : (search (demoCtx {}) demoDoc).map Hit.path = ["a.k".toList, "c[&s]".toList] := by decide +kernel
/-- with value aliases included they are -/
example : (search (demoCtx { inclValueAliases := true }) demoDoc).map Hit.path =
    ["a.k".toList, "b.k".toList, "c[&s]".toList, "c[&s]".toList] := by decide +kernel
example : Spec.found (demoCtx {}) demoDoc = [[.key (.str "a".toList), .key (.str "k".toList)],
    [.key (.str "c".toList), .idx 0]] := by decide +kernel
/-- key-name search with expansion: the matched key `a` is replaced by its leaf -/
example : (search ⟨{ searchKeys := true, expand := true, fslash := true }, fun s => s == .str "a".toList⟩ demoDoc).map
    Hit.path = ["/a/k".toList] := by decide +kernel

/-! ## Known finding: a key and its text as another key (`{1: x, '1': y}`)

The path notation writes the integer key `1` and the string key `'1'` the same way; the search
reports two different addresses under one path text (so the printed path cannot denote both). -/
def clashDoc : SNode :=
  .map none [(⟨none, .int 1⟩, .scalar none (.str "x".toList)), (⟨none, .str "1".toList⟩, .scalar none (.str "y".toList))] [] []

example : (search ⟨{}, fun _ => true⟩ clashDoc) =
    [⟨"1".toList, [.key (.int 1)]⟩, ⟨"1".toList, [.key (.str "1".toList)]⟩] := by decide +kernel

end Ypv.C07
