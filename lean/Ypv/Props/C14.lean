import Ypv.Model.Parser
/-!
# C14 — parsing any text as a YAML Path ends in segments or a YAML Path error

`parse_total`: for every text, separator choice and escape mode, the outcome of the parser
model is either a segment list or an error of the `YAMLPathException` family — the two `crash`
outcomes of the model (the `demarc_stack[-1]` read and the `demarc_stack.pop()` on an empty
stack) are unreachable.  Termination is structural: `run` is a recursion over the characters,
`splatLoop` over the segment text.
-/
namespace Ypv.C14
open Ypv

/-- The loop invariant: regex capture implies a non-empty demarcation stack. -/
def Inv (st : PState) : Prop := st.capturingRegex = true → st.stack ≠ []

/-- What every handler guarantees: the invariant on the state it hands on, and that an
error it raises is not a crash. -/
inductive OutInv : StepOut → Prop
  | cont {st} : Inv st → OutInv (.cont st)
  | fall {st} : Inv st → OutInv (.fall st)
  | err {e} : e.isCrash = false → OutInv (.err e)

theorem inv_of_not_capturing {st : PState} (h : st.capturingRegex = false) : Inv st := by
  intro h'; rw [h] at h'; cases h'

theorem splatLoop_nc : ∀ (cs : Str) (w : Bool) (acc : Str) (e : PErr),
    splatLoop cs w acc = .error e → e.isCrash = false := by
  intro cs
  induction cs with
  | nil => intro w acc e h; simp [splatLoop] at h
  | cons c rest ih =>
    intro w acc e h
    unfold splatLoop at h
    split at h
    · split at h
      · cases h; rfl
      · exact ih _ _ _ h
    · exact ih _ _ _ h

theorem expandSplats_nc (s : Str) (t : SegType) (e : PErr) :
    expandSplats s t = .error e → e.isCrash = false := by
  intro h
  unfold expandSplats at h
  simp only [] at h
  repeat' split at h
  all_goals first
    | (cases h; done)
    | (rename_i e' heq; cases h; exact splatLoop_nc _ _ _ _ heq)

theorem flushSeg_spec (st : PState) :
    (∀ e, flushSeg st = .error e → e.isCrash = false) ∧
    (∀ st', flushSeg st = .ok st' → st'.capturingRegex = st.capturingRegex ∧ st'.stack = st.stack) := by
  unfold flushSeg
  constructor
  · intro e h
    split at h
    · split at h
      · cases h
      · rename_i e' heq; cases h; exact expandSplats_nc _ _ _ heq
    · cases h
  · intro st' h
    split at h
    · split at h
      · cases h; exact ⟨rfl, rfl⟩
      · cases h
    · cases h; exact ⟨rfl, rfl⟩

theorem pre0_inv (st : PState) (c : Char) (h : Inv st) :
    Inv (pre0 st c) ∧ (pre0 st c).count = (pre0 st c).stack.length := by
  unfold pre0 Inv at *
  simp only []
  split <;> exact ⟨h, rfl⟩

theorem hRegex_ok (st : PState) (c : Char) (h : st.stack ≠ []) (hi : Inv st) : OutInv (hRegex st c) := by
  unfold hRegex
  split
  · exact absurd ‹_› h
  · split
    · exact .cont (inv_of_not_capturing rfl)
    · exact .fall hi

theorem hCloseNested_ok (st : PState) (hc : st.count = st.stack.length)
    (hr : st.capturingRegex = false) : OutInv (hCloseNested st) := by
  unfold hCloseNested
  split
  · exact .err rfl
  · split
    · rename_i h heq; rw [heq] at hc; simp at hc; omega
    · exact .fall (inv_of_not_capturing (by simpa [PState.pop] using hr))

theorem hQuote_ok (st : PState) (c : Char) (hr : st.capturingRegex = false) : OutInv (hQuote st c) := by
  unfold hQuote
  simp only []
  split
  · split
    · split
      · apply OutInv.cont; apply inv_of_not_capturing
        split <;> simpa [PState.pop] using hr
      · exact .fall (inv_of_not_capturing (by simpa [PState.pop] using hr))
    · exact .fall (inv_of_not_capturing (by simpa [PState.push] using hr))
  · exact .cont (inv_of_not_capturing (by simpa [PState.push] using hr))

theorem hOpenParen_ok (st : PState) (c : Char) (hr : st.capturingRegex = false) :
    OutInv (hOpenParen st c) := by
  unfold hOpenParen
  split
  · split
    · exact .cont (inv_of_not_capturing (by simpa [PState.push] using hr))
    · exact .err rfl
  · split
    · rename_i e heq
      split at heq
      · exact .err ((flushSeg_spec st).1 e heq)
      · cases heq
    · rename_i st' heq
      have hr' : st'.capturingRegex = false := by
        split at heq
        · rw [((flushSeg_spec st).2 st' heq).1]; exact hr
        · cases heq; exact hr
      simp only []
      split
      · exact .cont (inv_of_not_capturing (by simpa [PState.push] using hr'))
      · exact .fall (inv_of_not_capturing (by simpa [PState.push] using hr'))

theorem hCloseKeyword_ok (st : PState) (hr : st.capturingRegex = false) : OutInv (hCloseKeyword st) := by
  unfold hCloseKeyword
  exact .cont (inv_of_not_capturing (by simpa [PState.pop] using hr))

theorem hCloseColl_ok (st : PState) (hr : st.capturingRegex = false) : OutInv (hCloseColl st) := by
  unfold hCloseColl
  simp only []
  split
  · exact .cont (inv_of_not_capturing (by simpa [PState.pop] using hr))
  · exact .fall (inv_of_not_capturing (by simpa [PState.pop] using hr))

theorem hOpenBracket_ok (st : PState) (c : Char) (hr : st.capturingRegex = false) :
    OutInv (hOpenBracket st c) := by
  unfold hOpenBracket
  split
  · rename_i e heq; exact .err ((flushSeg_spec st).1 e heq)
  · rename_i st' heq
    have := ((flushSeg_spec st).2 st' heq).1
    exact .cont (inv_of_not_capturing (by simp [PState.push, this, hr]))

theorem hOperator_ok (st : PState) (c : Char) (hr : st.capturingRegex = false) :
    OutInv (hOperator st c) := by
  unfold hOperator
  simp only []
  repeat' split
  all_goals first
    | exact .err rfl
    | exact .cont (inv_of_not_capturing (by simpa using hr))

theorem closeSeg_nc (st : PState) (e : PErr) : closeSeg st = .error e → e.isCrash = false := by
  intro h
  unfold closeSeg at h
  repeat' split at h
  all_goals first | (cases h; done) | (cases h; rfl)

theorem hCloseBracket_ok (st : PState) (hr : st.capturingRegex = false) : OutInv (hCloseBracket st) := by
  unfold hCloseBracket
  split
  · rename_i e heq; exact .err (closeSeg_nc st e heq)
  · exact .cont (inv_of_not_capturing (by simpa [PState.pop] using hr))

theorem hSep_ok (st : PState) (hr : st.capturingRegex = false) : OutInv (hSep st) := by
  unfold hSep
  split
  · rename_i e heq; exact .err ((flushSeg_spec st).1 e heq)
  · rename_i st' heq
    have := ((flushSeg_spec st).2 st' heq).1
    exact .cont (inv_of_not_capturing (by simp [this, hr]))

theorem hSimple_ok (strip : Bool) (st : PState) (c : Char) (hr : st.capturingRegex = false) :
    OutInv (hBackslash strip st) ∧ OutInv (hAnchorMark st) ∧ OutInv (hCollOp st c)
      ∧ OutInv (hOpenNested st c) ∧ OutInv (hRegexDelim st c) := by
  refine ⟨?_, ?_, ?_, ?_, ?_⟩
  · unfold hBackslash; split
    · exact .cont (inv_of_not_capturing (by simpa using hr))
    · exact .fall (inv_of_not_capturing (by simpa using hr))
  · exact .cont (inv_of_not_capturing (by simpa [hAnchorMark] using hr))
  · exact .cont (inv_of_not_capturing (by simpa [hCollOp] using hr))
  · exact .fall (inv_of_not_capturing (by simpa [hOpenNested, PState.push] using hr))
  · exact .cont (fun _ => by simp [PState.push])

theorem ite_ok {c : Prop} [Decidable c] {a b : StepOut} (ha : c → OutInv a) (hb : ¬c → OutInv b) :
    OutInv (if c then a else b) := by
  split
  · exact ha ‹_›
  · exact hb ‹_›

/-- The dispatcher preserves the invariant and never produces a crash outcome. -/
theorem stepCore_ok (sep : Char) (strip : Bool) (st : PState) (c : Char) (h : Inv st) :
    OutInv (stepCore sep strip st c) := by
  unfold stepCore
  obtain ⟨hi, hc⟩ := pre0_inv st c h
  generalize pre0 st c = s at *
  unfold dispatch
  refine ite_ok (fun _ => .fall (by intro h'; exact hi h')) (fun _ => ?_)
  refine ite_ok (fun hcr => hRegex_ok s c (hi hcr) hi) (fun hncr => ?_)
  have hr' : s.capturingRegex = false := by simpa using hncr
  obtain ⟨b1, b2, b3, b4, b5⟩ := hSimple_ok strip s c hr'
  have leaf : ∀ o : StepOut, (o = hBackslash strip s ∨ o = .cont s ∨ o = hRegexDelim s c ∨ o = hAnchorMark s
      ∨ o = hCollOp s c ∨ o = .err (.ypath 1) ∨ o = hQuote s c ∨ o = hOpenParen s c ∨ o = hCloseKeyword s
      ∨ o = hCloseColl s ∨ o = hOpenBracket s c ∨ o = hOperator s c ∨ o = hOpenNested s c
      ∨ o = hCloseBracket s ∨ o = hCloseNested s ∨ o = hSep s ∨ o = .fall s) → OutInv o := by
    intro o ho
    rcases ho with h | h | h | h | h | h | h | h | h | h | h | h | h | h | h | h | h <;> subst h
    · exact b1
    · exact .cont (inv_of_not_capturing hr')
    · exact b5
    · exact b2
    · exact b3
    · exact .err rfl
    · exact hQuote_ok _ _ hr'
    · exact hOpenParen_ok _ _ hr'
    · exact hCloseKeyword_ok _ hr'
    · exact hCloseColl_ok _ hr'
    · exact hOpenBracket_ok _ _ hr'
    · exact hOperator_ok _ _ hr'
    · exact b4
    · exact hCloseBracket_ok _ hr'
    · exact hCloseNested_ok _ hc hr'
    · exact hSep_ok _ hr'
    · exact .fall (inv_of_not_capturing hr')
  iterate 16 (refine ite_ok (fun _ => leaf _ (by simp)) (fun _ => ?_))
  exact leaf _ (by simp)

theorem step_ok (sep : Char) (strip : Bool) (st : PState) (c : Char) (h : Inv st) :
    (∀ e, step sep strip st c = .error e → e.isCrash = false) ∧
    (∀ st', step sep strip st c = .ok st' → Inv st') := by
  have := stepCore_ok sep strip st c h
  unfold step
  split
  · rename_i e heq; rw [heq] at this
    cases this with
    | err he => exact ⟨fun e' h' => (by cases h'; exact he), fun _ h' => (by cases h')⟩
  · rename_i s heq; rw [heq] at this
    cases this with
    | cont hs => exact ⟨fun _ h' => (by cases h'), fun st' h' => (by cases h'; exact hs)⟩
  · rename_i s heq; rw [heq] at this
    cases this with
    | fall hs =>
      refine ⟨fun _ h' => (by cases h'), fun st' h' => ?_⟩
      cases h'
      simpa [Inv, PState.append] using hs

theorem run_ok (sep : Char) (strip : Bool) : ∀ (cs : List Char) (st : PState), Inv st →
    (∀ e, run sep strip st cs = .error e → e.isCrash = false) := by
  intro cs
  induction cs with
  | nil => intro st _ e h; simp [run] at h
  | cons c cs ih =>
    intro st hi e h
    unfold run at h
    obtain ⟨h1, h2⟩ := step_ok sep strip st c hi
    split at h
    · rename_i e' heq; cases h; exact h1 _ heq
    · rename_i st' heq; exact ih st' (h2 _ heq) e h

theorem finish_nc (st : PState) (e : PErr) : finish st = .error e → e.isCrash = false := by
  intro h
  unfold finish at h
  repeat' split at h
  all_goals first
    | (cases h; done)
    | (cases h; rfl)
    | (rename_i e' heq; cases h; exact expandSplats_nc _ _ _ heq)

/-- **C14** (explicit separator).  Whatever the text, the forced separator and the escape
mode, the parser model yields segments or a YAML Path error; no crash outcome is reachable. -/
theorem parseWith_total (fslash strip : Bool) (t : Str) :
    (∃ segs, parseWith fslash strip t = .ok segs) ∨
    (∃ code, parseWith fslash strip t = .error (.ypath code)) := by
  cases hp : parseWith fslash strip t with
  | ok segs => exact .inl ⟨segs, rfl⟩
  | error e =>
    right
    have hnc : e.isCrash = false := by
      unfold parseWith at hp
      simp only [] at hp
      split at hp
      · cases hp
      · split at hp
        · rename_i e' heq
          cases hp
          exact run_ok _ _ _ _ (inv_of_not_capturing rfl) _ heq
        · exact finish_nc _ _ hp
    cases e with
    | ypath code => exact ⟨code, rfl⟩
    | crash code => simp [PErr.isCrash] at hnc

/-- **C14**.  The same with the separator inferred from the text, as `YAMLPath(text)` does. -/
theorem parse_total (strip : Bool) (t : Str) :
    (∃ segs, parse strip t = .ok segs) ∨ (∃ code, parse strip t = .error (.ypath code)) :=
  parseWith_total _ strip t

/-- Non-vacuity / regression witnesses: the texts that crashed the pinned parser are now
YAML Path errors of the model, and a rich path parses. -/
example : parse true "]".toList = .error (.ypath 13) := by decide +kernel
example : parse true "a[1]]".toList = .error (.ypath 13) := by decide +kernel
example : (parse true "a.b[1]".toList) = .ok [(.key, .str ['a']), (.key, .str ['b']), (.index, .int 1)] := by
  decide +kernel

end Ypv.C14
