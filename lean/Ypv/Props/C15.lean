import Ypv.Lemmas.EvalKw
import Ypv.Props.C12
import Ypv.Lemmas.Collector
/-!
# C15 — evaluation fails only with YAML Path errors

Every partial Python operation the handlers use is a model function with a `crash` outcome
(`pyGetItem`: `IndexError`; `pyIn`: `TypeError` on `None`; `pyKeyBetween`: `TypeError` on `str <= int`;
`groupKey`: `TypeError` for an unhashable `dict` key in `unique`/`distinct`).  The theorems say that
behind the guards of the (fixed) code no crash outcome is reachable, for every document, every
segment list — KEYWORD_SEARCH segments included —, every integer index and slice bound, with **one
exception, the registered known finding C15-K1**: `[unique(…)]` / `[distinct(…)]` over a collection
with an unhashable (hash or list) member value raise `TypeError`.

* The matcher is no longer a hypothesis: `compare_matcher_safe` proves `MtSafe` for the matcher
  built from the comparison model (`W1.mtCompare rx orc`, from `C12.matches_never_crashes`), for every
  regex oracle; container haystacks are answered by the explicit oracle `orc` (`W1.noOracle`: out of
  model), so `queries_errors_are_ypath_compare` has no hypothesis about `search_matches` at all.
* `keyword_crash_only_K1`: at every node, for every keyword segment, a crash outcome is `TypeError`
  and the (segment, node) pair lies in the decidable class `W1.K1Class` (= C15-K1).
* `required_errors_are_ypath_partial`: no crash outcome of `_get_required_nodes` for a path without
  `unique`/`distinct` segments.  FULL STATEMENT (false for the pinned code, C15-K1): no crash outcome for
  every path.  The hypothesis excludes the finding's class *coarsened to the path*: the model does
  not track which nodes a path reaches, so "no reached node is in `K1Class s`" is stated as "no
  segment `s` can be in the class at all" (`ESeg.grouping s = false`); the exact, node-level class is
  the one of `keyword_crash_only_K1`.
The `example`s show the unguarded operations crash — which is what the pinned code did
(fixes/C15-1.patch) — and the kernel-checked witness of C15-K1.
-/
namespace Ypv.C15
open Ypv Ypv.Eval Gen

variable {mt : Matcher} {dsc : Desc} {rt : Node}

/-- **The matcher of the comparison model raises only YAML Path errors** (or out-of-model), for
every regex oracle `rx`, provided the oracle `orc` for container haystacks does: a scalar haystack
is compared by `searchMatches`, which never ends in a crash outcome (`C12.matches_never_crashes`). -/
theorem compare_matcher_safe (rx : Str → Str → Option Bool) {orc : Matcher} (horc : MtSafe orc) :
    MtSafe (W1.mtCompare rx orc) := by
  intro m n t e h
  unfold W1.mtCompare at h
  split at h
  · rename_i a v
    split at h
    · exact horc _ _ _ _ h
    · cases e with
      | crash k => exact absurd h (C12.matches_never_crashes rx m v t k)
      | _ => rfl
  · exact horc _ _ _ _ h

/-- Without an oracle (container haystacks out of model) nothing is assumed at all. -/
theorem compare_matcher_safe_noOracle (rx : Str → Str → Option Bool) : MtSafe (W1.mtCompare rx W1.noOracle) :=
  compare_matcher_safe rx W1.mtSafe_noOracle

/-- **Where a keyword segment can crash** (any node `n`, any coordinates, any document root): a
crash outcome of `KeywordSearches.search_matches` is a `TypeError`, and the segment is
`unique`/`distinct` applied to a collection with an unhashable member value — the decidable class
`W1.K1Class` of the known finding C15-K1.  Outside that class no crash outcome is reachable. -/
theorem keyword_crash_only_K1 (rt : Node) (inv : Bool) (k : Keyword) (p : Str) (n : Node) (c : Ctx) (e : Err)
    (h : (kwStep rt inv k p n c).2 = some e) (hc : e.isCrash = true) :
    e = .crash .typeError ∧ W1.K1Class (.keyword inv k p) n = true :=
  W1.crash_kwStep rt inv k p n c e h hc

theorem keyword_no_crash_outside_K1 (rt : Node) (inv : Bool) (k : Keyword) (p : Str) (n : Node) (c : Ctx)
    (hK : W1.K1Class (.keyword inv k p) n = false) : (kwStep rt inv k p n c).NoCrash := by
  intro e he
  cases hc : e.isCrash with
  | false => rfl
  | true => rw [(keyword_crash_only_K1 rt inv k p n c e he hc).2] at hK; cases hK

/-- **No crash outcome is reachable** (PARTIAL: the class of C15-K1 is excluded — see the header).
If the matcher raises only YAML Path errors (or out-of-model), and so does the evaluation of
attribute paths, and the path holds no `unique`/`distinct` segment, then whatever
`_get_required_nodes` raises — on any start node, for any such segment list, keyword segments
included — is not a crash. -/
theorem required_errors_are_ypath_partial (hmt : MtSafe mt) (hd : DscSafe dsc) (segs : List ESeg)
    (hK1 : ∀ s ∈ segs, s.grouping = false) (r : Res) (e : Err)
    (h : (required mt dsc rt segs r).2 = some e) : e.isCrash = false :=
  noCrash_required hmt hd segs (fun s hs => W1.kwOk_of_not_grouping rt s (hK1 s hs)) r e h

/-- The same for the queries as the user asks them: `get_nodes(mustexist=True)`, `exists`,
`get_nodes(mustexist=False)` (read behaviour), with attribute paths evaluated by the model itself
(no `unique`/`distinct` segment in the path or in an attribute path). -/
theorem queries_errors_are_ypath_partial (hmt : MtSafe mt) (pa : Str → Except Err (List ESeg))
    (hpa : ∀ a e, pa a = .error e → e.isCrash = false)
    (hpk : ∀ a sg, pa a = .ok sg → ∀ s ∈ sg, s.grouping = false)
    (segs : List ESeg) (hK1 : ∀ s ∈ segs, s.grouping = false) (d : Node) :
    (getRequired mt (Desc.ofParser mt d pa) segs d).NoCrash
    ∧ (∀ e, existsQ mt (Desc.ofParser mt d pa) segs d = .error e → e.isCrash = false)
    ∧ (getOptional mt (Desc.ofParser mt d pa) segs d).NoCrash := by
  have hd : DscSafe (Desc.ofParser mt d pa) :=
    dscSafe_ofParser hmt pa hpa (fun a sg h s hs => W1.kwOk_of_not_grouping d s (hpk a sg h s hs))
  have hk : ∀ s ∈ segs, KwOk d s := fun s hs => W1.kwOk_of_not_grouping d s (hK1 s hs)
  refine ⟨?_, ?_, ?_⟩
  · unfold getRequired
    split
    · exact noCrash_nil
    · refine noCrash_append (noCrash_required hmt hd _ hk _) ?_
      split
      · exact noCrash_fail rfl
      · exact noCrash_nil
  · intro e he
    unfold existsQ at he
    split at he
    · cases he
    · have := noCrash_required hmt hd segs hk (.real (d, Ctx.root))
      unfold collapse at he
      split at he
      · cases he
      · rename_i e' heq
        simp only [Except.error.injEq] at he
        subst he
        split at heq
        · rename_i e2 h2
          cases heq
          exact this _ h2
        · cases heq
  · unfold getOptional
    split
    · exact noCrash_nil
    · exact noCrash_optional hmt hd _ hk _

/-- **With the comparison model as the matcher nothing is assumed about `search_matches`**: for
every regex oracle, every reading of attribute texts that fails only with YAML Path errors, every
document and every path without `unique`/`distinct` segments, the three queries end without a crash
outcome (container haystacks: out of model). -/
theorem queries_errors_are_ypath_compare (rx : Str → Str → Option Bool) (pa : Str → Except Err (List ESeg))
    (hpa : ∀ a e, pa a = .error e → e.isCrash = false)
    (hpk : ∀ a sg, pa a = .ok sg → ∀ s ∈ sg, s.grouping = false)
    (segs : List ESeg) (hK1 : ∀ s ∈ segs, s.grouping = false) (d : Node) :
    (getRequired (W1.mtCompare rx W1.noOracle) (Desc.ofParser (W1.mtCompare rx W1.noOracle) d pa) segs d).NoCrash
    ∧ (∀ e, existsQ (W1.mtCompare rx W1.noOracle) (Desc.ofParser (W1.mtCompare rx W1.noOracle) d pa) segs d = .error e
        → e.isCrash = false)
    ∧ (getOptional (W1.mtCompare rx W1.noOracle) (Desc.ofParser (W1.mtCompare rx W1.noOracle) d pa) segs d).NoCrash :=
  queries_errors_are_ypath_partial (compare_matcher_safe_noOracle rx) pa hpa hpk segs hK1 d

/-- The hypotheses are met by a concrete matcher (string equality on scalars, YAML Path error on
containers), and the theorem then covers a query that raises. -/
def sampleMt : Matcher := fun _ n t =>
  match n with
  | .scalar _ (.str s) => .ok (s == t)
  | .scalar _ _ => .ok false
  | _ => .error (.ypath .generic)

example : MtSafe sampleMt := by
  intro m n t e h
  unfold sampleMt at h
  split at h <;> cases h
  rfl

example : (required sampleMt Desc.none (.scalar none .null) [.index 0] (.real (.set none [.str ['a']], Ctx.root))).2
    = some (.ypath .generic) := by decide +kernel

/-! What the unguarded operations of the pinned code do (each was reproduced on the real code):
`[1][-2]`, `None`-membership, `'a' <= 2`. -/
example : pyGetItem [Node.scalar none (.int 1)] (-2) = .error (.crash .indexError) := by decide +kernel
example : pyGetItem [Node.scalar none (.int 1), Node.scalar none (.int 2)] 8 = .error (.crash .indexError) := by
  decide +kernel
example : pyIn ['a'] (.scalar none .null) = .error (.crash .typeError) := by decide +kernel
example : pyKeyBetween ['a'] ['b'] (.int 2) = .error (.crash .typeError) := by decide +kernel
/-- … and the guarded handlers on the same inputs. -/
example : (required sampleMt Desc.none (.scalar none .null) [.index (-2)] (.real (.seq none [.scalar none (.int 1)], Ctx.root))) = Gen.nil := by
  decide +kernel
example : (required sampleMt Desc.none (.scalar none .null) [.slice ['1'] ['9']]
    (.real (.seq none [.scalar none (.int 1), .scalar none (.int 2)], Ctx.root))).1.length = 1 := by
  decide +kernel

/-! ## C15-K1 (known finding): `[unique()]` over `[a, {b: 1}, a]` raises `TypeError`; the pair is in
`K1Class`; `[max()]`-style segments and hashable members are outside it. -/
def k1Doc : Node := .seq none [.scalar none (.str ['a']), .map none [(.str ['b'], .scalar none (.int 1))], .scalar none (.str ['a'])]

example : (required sampleMt Desc.none k1Doc [.keyword false .unique []] (.real (k1Doc, Ctx.root))).2
    = some (.crash .typeError) := by decide +kernel
example : (required sampleMt Desc.none k1Doc [.keyword false .distinct []] (.real (k1Doc, Ctx.root))).2
    = some (.crash .typeError) := by decide +kernel
example : W1.K1Class (.keyword false .unique []) k1Doc = true := by decide +kernel
example : W1.K1Class (.keyword false .unique [])
    (.seq none [.scalar none (.str ['a']), .scalar none (.int 1), .scalar none (.str ['a'])]) = false := by decide +kernel
/-- … and a keyword query inside the theorem: `[!has_child(b)]` / `[parent()]` / `[max(b)]`. -/
example : ∀ s ∈ [ESeg.index 1, .keyword false .hasChild ['b'], .keyword false .parent []], s.grouping = false := by
  decide +kernel
example : (required sampleMt Desc.none k1Doc [.index 1, .keyword false .hasChild ['b'], .keyword false .parent []]
    (.real (k1Doc, Ctx.root))).1.map (fun r => match r with | .real x => x.2.addr | .virt _ => [])
    = [[]] := by decide +kernel
/-- The comparison-model matcher decides a search without any oracle. -/
example : (required (W1.mtCompare C12.noRegex W1.noOracle) Desc.none k1Doc [.search false .equals ['.'] ['a']]
    (.real (.seq none [.scalar none (.str ['a']), .scalar none (.int 1)], Ctx.root))).1.length = 1 := by decide +kernel


/-! ## Collector segments (wave w3)

`W3.requiredM` (`Model/Collector.lean`) evaluates COLLECTOR segments with the document as state.
Collectors add exactly one source of crash outcomes, `_collector_subtraction` applied to a left
operand that holds a HASH (flag `hashSub` of the state = decidable class of C09-F1): there
`lhs.parentref in rhs` raises `TypeError` for a scalar `rhs`, `rhs.items()` raises `AttributeError`
for any `rhs` that is no dict, and `del updated_coords[idx]….node[key]` raises `IndexError` /
`KeyError` / `TypeError` when the recorded `(rem_idx, key)` pairs no longer fit `updated_coords`
(kernel-checked witnesses below, all reproduced on the pinned code).  C15's quantifier limits
collectors to operands selecting scalars, which lies inside `hashSub = false`.
FULL STATEMENT (false for the pinned code): no crash outcome for every collector path. -/
section Collectors
open Ypv.W3
variable {mt : Matcher} {dsc : Node → Desc}

/-- **C15 for collector paths.**  Safe matcher and attribute evaluation, no `unique`/`distinct`
segment at any nesting level (`okDeep`, class of C15-K1): a crash outcome of `_get_required_nodes`
implies that a subtraction collector met a hash on its left — collectors add no crash outcome
beyond that class; the parse of a nested collector text never crashes (C14). -/
theorem collector_crash_only_hashSub (hmt : MtSafe mt) (hd : ∀ rt, DscSafe (dsc rt)) (fuel : Nat) (segs : List ESeg)
    (hok : okDeep fuel segs = true) (r : CRes) (st : St) (e : Err)
    (he : (requiredM mt dsc fuel segs r st).1.2 = some e) (hc : e.isCrash = true) :
    (requiredM mt dsc fuel segs r st).2.hashSub = true :=
  (requiredM_good hmt hd fuel segs hok r st).2 e he hc

/-- … contrapositive: outside the class the evaluation ends with results or a YAML Path error. -/
theorem collector_errors_are_ypath_partial (hmt : MtSafe mt) (hd : ∀ rt, DscSafe (dsc rt)) (fuel : Nat)
    (segs : List ESeg) (hok : okDeep fuel segs = true) (r : CRes) (st : St)
    (hf : (requiredM mt dsc fuel segs r st).2.hashSub = false) :
    (requiredM mt dsc fuel segs r st).1.NoCrash := by
  intro e he
  cases hc : e.isCrash with
  | false => rfl
  | true => rw [collector_crash_only_hashSub hmt hd fuel segs hok r st e he hc] at hf; cases hf

/-- The same for `get_nodes(mustexist=True)` with the matcher of the comparison model and attribute
paths evaluated by the model itself: no hypothesis about `search_matches` left. -/
theorem collector_queries_errors_are_ypath_compare (rx : Str → Str → Option Bool) (pa : Str → Except Err (List ESeg))
    (hpa : ∀ a e, pa a = .error e → e.isCrash = false)
    (hpk : ∀ a sg, pa a = .ok sg → ∀ s ∈ sg, s.grouping = false)
    (fuel : Nat) (segs : List ESeg) (hok : okDeep fuel segs = true) (d : Node)
    (hf : (getRequiredM (W1.mtCompare rx W1.noOracle) (fun rt => Desc.ofParser (W1.mtCompare rx W1.noOracle) rt pa)
      fuel segs d).2.hashSub = false) :
    (getRequiredM (W1.mtCompare rx W1.noOracle) (fun rt => Desc.ofParser (W1.mtCompare rx W1.noOracle) rt pa)
      fuel segs d).1.NoCrash := by
  have hmt := compare_matcher_safe_noOracle rx
  have hd : ∀ rt, DscSafe (Desc.ofParser (W1.mtCompare rx W1.noOracle) rt pa) := fun rt =>
    dscSafe_ofParser hmt pa hpa (fun a sg h s hs => W1.kwOk_of_not_grouping rt s (hpk a sg h s hs))
  unfold getRequiredM at hf ⊢
  split
  · exact noCrash_nil
  · rename_i hnull
    simp only [hnull] at hf
    refine noCrash_append (collector_errors_are_ypath_partial hmt hd fuel segs hok _ _ hf) ?_
    split
    · exact noCrash_fail rfl
    · exact noCrash_nil

/-- What `_collector_subtraction` raises in its comparison loop: only with a hash on the left, and then
`TypeError` / `AttributeError` (or a fenced input). -/
theorem subtraction_loop_outcomes (rem : List RemEl) (lhs : List CRes) :
    (∀ l ∈ lhs, l.unwrap.isMap = false) → ∃ upd, subLoop rem lhs [] [] = .ok (upd, []) :=
  subLoop_noMap rem lhs [] []

end Collectors

/-- Kernel-checked witnesses of the subtraction crash outcomes (each reproduced on the pinned code,
`Processor._collector_subtraction`), all inside the class `hashSub`. -/
def cMt : Matcher := fun _ _ _ => .ok true
def cI (i : Int) : Node := .scalar none (.int i)
def cM (es : List (Str × Node)) : Node := .map none (es.map (fun kv => (Key.str kv.1, kv.2)))
/-- the outcome, the flag, the number of deletions made -/
def cOut (q : Gen W3.CRes × W3.St) : Option Err × Bool × Nat := (q.1.2, q.2.hashSub, q.2.dels.length)
/-- `(a)-(l[0])` over `{a: {x: 1}, l: [5]}`: `'a' in 5` → TypeError -/
example : cOut (W3.queryM cMt (fun _ => Desc.none) "(a)-(l[0])".toList (cM [(['a'], cM [(['x'], cI 1)]), (['l'], .seq none [cI 5])]))
    = (some (.crash .typeError), true, 0) := by decide +kernel
/-- `(a)-(l)` over `{a: {x: 1}, l: ['x']}`: `'x'.items()` → AttributeError -/
example : cOut (W3.queryM cMt (fun _ => Desc.none) "(a)-(l)".toList
      (cM [(['a'], cM [(['x'], cI 1)]), (['l'], .seq none [.scalar none (.str ['x'])])]))
    = (some (.crash .attributeError), true, 0) := by decide +kernel
/-- `(h)-(l.x)` over `{h: {x: 1, y: 2}, l: [{x: 1}, {x: 1}]}`: the pair is recorded twice, the second `del` → KeyError
(after the first one changed the document) -/
example : cOut (W3.queryM cMt (fun _ => Desc.none) "(h)-(l.x)".toList
      (cM [(['h'], cM [(['x'], cI 1), (['y'], cI 2)]), (['l'], .seq none [cM [(['x'], cI 1)], cM [(['x'], cI 1)]])]))
    = (some (.crash .keyError), true, 1) := by decide +kernel
/-- `(a)-(b.*)` over `{a: {x: 1, y: 2}, b: {a: 5, x: 1}}`: `a` is dropped (its key is in `{a: 5}`) but a deletion was
recorded for its slot → IndexError -/
example : cOut (W3.queryM cMt (fun _ => Desc.none) "(a)-(b.*)".toList
      (cM [(['a'], cM [(['x'], cI 1), (['y'], cI 2)]), (['b'], cM [(['a'], cI 5), (['x'], cI 1)])]))
    = (some (.crash .indexError), true, 0) := by decide +kernel
/-- non-vacuity: a collector path with scalar operands is outside the class and `okDeep` holds for it -/
example : W3.okDeep 12 [.collector "a.*".toList .none, .collector "a.x".toList .sub, .index 0] = true := by decide +kernel
example : (W3.getRequiredM cMt (fun _ => Desc.none) 12 [.collector "a.*".toList .none, .collector "a.x".toList .sub, .index 0]
    (cM [(['a'], cM [(['x'], cI 1), (['y'], cI 2)])])).2.hashSub = false := by decide +kernel

end Ypv.C15
