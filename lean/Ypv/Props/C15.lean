import Ypv.Lemmas.Eval
/-!
# C15 — evaluation fails only with YAML Path errors

Every partial Python operation the handlers use is a model function with a `crash` outcome
(`pyGetItem`: `IndexError`; `pyIn`: `TypeError` on `None`; `pyKeyBetween`: `TypeError` on `str <= int`);
the matcher may answer with any error.  The theorems say that behind the guards of the (fixed) code no
crash outcome is reachable, for every document, every segment list, every integer index and slice
bound.  The `example`s show the same operations crash without the guards — which is what the pinned
code did (fixes/C15-1.patch).
-/
namespace Ypv.C15
open Ypv Ypv.Eval Gen

variable {mt : Matcher} {dsc : Desc}

/-- **No crash outcome is reachable.**  If the matcher raises only YAML Path errors (or
out-of-model), and so does the evaluation of attribute paths, then whatever `_get_required_nodes`
raises — on any start node, for any segment list — is not a crash. -/
theorem required_errors_are_ypath (hmt : MtSafe mt) (hd : DscSafe dsc) (segs : List ESeg) (r : Res) (e : Err)
    (h : (required mt dsc segs r).2 = some e) : e.isCrash = false :=
  noCrash_required hmt hd segs r e h

/-- The same for the queries as the user asks them: `get_nodes(mustexist=True)`, `exists`,
`get_nodes(mustexist=False)` (read behaviour), with attribute paths evaluated by the model itself. -/
theorem queries_errors_are_ypath (hmt : MtSafe mt) (pa : Str → Except Err (List ESeg))
    (hpa : ∀ a e, pa a = .error e → e.isCrash = false) (segs : List ESeg) (d : Node) :
    (getRequired mt (Desc.ofParser mt pa) segs d).NoCrash
    ∧ (∀ e, existsQ mt (Desc.ofParser mt pa) segs d = .error e → e.isCrash = false)
    ∧ (getOptional mt (Desc.ofParser mt pa) segs d).NoCrash := by
  have hd := dscSafe_ofParser hmt pa hpa
  refine ⟨?_, ?_, ?_⟩
  · unfold getRequired
    split
    · exact noCrash_nil
    · refine noCrash_append (noCrash_required hmt hd _ _) ?_
      split
      · exact noCrash_fail rfl
      · exact noCrash_nil
  · intro e he
    unfold existsQ at he
    split at he
    · cases he
    · have := noCrash_required hmt hd segs (.real (d, Ctx.root))
      unfold collapse at he
      split at he
      · cases he
      · rename_i e' heq
        simp only [Except.error.injEq] at he
        subst he
        split at heq
        · rename_i e2 h2
          cases heq
          exact this _ h2
        · cases heq
  · unfold getOptional
    split
    · exact noCrash_nil
    · exact noCrash_optional hmt hd _ _

/-- The hypotheses are met by a concrete matcher (string equality on scalars, YAML Path error on
containers), and the theorem then covers a query that raises. -/
def sampleMt : Matcher := fun _ n t =>
  match n with
  | .scalar _ (.str s) => .ok (s == t)
  | .scalar _ _ => .ok false
  | _ => .error (.ypath .generic)

example : MtSafe sampleMt := by
  intro m n t e h
  unfold sampleMt at h
  split at h <;> cases h
  rfl

example : (required sampleMt Desc.none [.index 0] (.real (.set none [.str ['a']], Ctx.root))).2
    = some (.ypath .generic) := by decide +kernel

/-! What the unguarded operations of the pinned code do (each was reproduced on the real code):
`[1][-2]`, `None`-membership, `'a' <= 2`. -/
example : pyGetItem [Node.scalar none (.int 1)] (-2) = .error (.crash .indexError) := by decide +kernel
example : pyGetItem [Node.scalar none (.int 1), Node.scalar none (.int 2)] 8 = .error (.crash .indexError) := by
  decide +kernel
example : pyIn ['a'] (.scalar none .null) = .error (.crash .typeError) := by decide +kernel
example : pyKeyBetween ['a'] ['b'] (.int 2) = .error (.crash .typeError) := by decide +kernel
/-- … and the guarded handlers on the same inputs. -/
example : (required sampleMt Desc.none [.index (-2)] (.real (.seq none [.scalar none (.int 1)], Ctx.root))) = Gen.nil := by
  decide +kernel
example : (required sampleMt Desc.none [.slice ['1'] ['9']]
    (.real (.seq none [.scalar none (.int 1), .scalar none (.int 2)], Ctx.root))).1.length = 1 := by
  decide +kernel

end Ypv.C15
