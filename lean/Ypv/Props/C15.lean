/-! C15 — property theorems (stub; no obligations yet) -/
