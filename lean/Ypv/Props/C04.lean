import Ypv.Spec.Edit
/-! C04 — property theorems (under construction) -/
namespace Ypv.C04
theorem placeholder : deletePositional (.scalar none .null) [] = .scalar none .null := rfl
end Ypv.C04
