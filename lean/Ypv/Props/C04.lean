/-! C04 — property theorems (stub; no obligations yet) -/
