import Ypv.Lemmas.Edit
/-!
# C04 — a delete removes exactly the matched nodes, whatever their number or position

Model: `Ypv.delete` (`Model/Edit.lean`) = `Processor.delete_nodes` / `delete_gathered_nodes` /
`_delete_nodes` as repaired by `fixes/C04-1.patch`, over the list of matched addresses (any list:
repeats, any order, nested, the root).  Specification: `Ypv.deleteSpec` / `Node.removeAll`
(`Spec/Edit.lean`).  `deletePositional` is the pinned reverse-order loop.
-/
namespace Ypv.C04
open Ypv

/-- **delete_eq_spec.** For every document and every list of matched addresses — several in one
sequence, empty containers, the same address listed more than once, in any order, ancestors together
with their descendants — deleting yields exactly the document minus the matched set
(removing an ancestor subsumes its descendants), or the root refusal. -/
theorem delete_eq_spec (d : Node) (addrs : List Addr) : delete d addrs = deleteSpec d addrs := by
  unfold delete deleteSpec
  by_cases h : [] ∈ addrs
  · simp [h]
  · simp only [h, List.contains_eq_mem, decide_false, Bool.false_eq_true, if_false]
    rw [deletePositional_eq_removeAll _ _ (noDisturb_normalize addrs)]
    rw [removeAll_congr d _ _ (fun x => mem_normalizeAddrs)]

/-- **delete_root_refused.** If the root is among the matched nodes the outcome is the
"no document" YAML Path error and no document is produced: nothing is deleted (the caller keeps `d`). -/
theorem delete_root_refused (d : Node) (addrs : List Addr) (h : [] ∈ addrs) :
    delete d addrs = .error (.ypath .noDocument) := by
  unfold delete; simp [h]

/-- **reverse_positional_eq_set_removal.** The lemma that makes gather-then-delete correct: when no
gathered reference is disturbed by one standing later in the list (`NoDisturb`: later references are
never the same element, an elder sibling, or an elder sibling of an ancestor within a sequence — true of
every list in document order without repeats, and of the normalised list of the repaired code),
deleting the gathered positions one by one in reverse equals removing the set. -/
theorem reverse_positional_eq_set_removal (d : Node) (addrs : List Addr) (h : NoDisturb addrs) :
    deletePositional d addrs = d.removeAll addrs :=
  deletePositional_eq_removeAll d addrs h

/-- The normalisation of the repaired `_delete_nodes` establishes the premise for any input. -/
theorem normalize_noDisturb (addrs : List Addr) :
    NoDisturb (normalizeAddrs addrs) ∧ ∀ x, x ∈ normalizeAddrs addrs ↔ x ∈ addrs :=
  ⟨noDisturb_normalize addrs, fun _ => mem_normalizeAddrs⟩

/-- **delete_frame.** What survives a set removal, level by level:
the surviving elements of a sequence are exactly those whose position is not matched, in their
original relative order, each one cleaned of the matched addresses below it; likewise the entries of
a mapping (keys unchanged); and a subtree below which no address is matched is returned unchanged.
Together with `delete_eq_spec` this is the frame of every delete. -/
theorem delete_frame :
    (∀ (an : Option Str) (items : List Node) (S : List Addr),
      (Node.seq an items).removeAll S = .seq an ((items.zipIdx 0).filterMap (fun ci =>
        if S.contains [.idx ci.2] then none else some (ci.1.removeAll (subAddrs (.idx ci.2) S)))))
    ∧ (∀ (an : Option Str) (es : List (Key × Node)) (S : List Addr),
      (Node.map an es).removeAll S = .map an (es.filterMap (fun e =>
        if S.contains [.key e.1] then none else some (e.1, e.2.removeAll (subAddrs (.key e.1) S)))))
    ∧ (∀ (d : Node) (S : List Addr), (∀ p ∈ S, p = []) → d.removeAll S = d) :=
  ⟨fun an items S => by simp [Node.removeAll, removeAllList_eq_filterMap],
   fun an es S => by simp [Node.removeAll, removeAllEntries_eq_filterMap],
   removeAll_only_root⟩

/-! ### The hypotheses are met by concrete, non-trivial values; witnesses of the pinned defects -/

def l123 : Node := .map none [(.str ['l'], .seq none [.scalar none (.int 1), .scalar none (.int 2), .scalar none (.int 3)])]
def L (i : Nat) : Addr := [.key (.str ['l']), .idx i]

/-- document order without repeats satisfies `NoDisturb` -/
example : NoDisturb [L 0, L 2] := by unfold NoDisturb; decide +kernel
example : deletePositional l123 [L 0, L 2] = .map none [(.str ['l'], .seq none [.scalar none (.int 2)])] := by
  decide +kernel
/-- the same node twice: the pinned loop removes two elements (`(l[0])+(l[0])`), the repaired delete one -/
example : deletePositional l123 [L 0, L 0] = .map none [(.str ['l'], .seq none [.scalar none (.int 3)])] := by
  decide +kernel
example : delete l123 [L 0, L 0] = .ok (.map none [(.str ['l'], .seq none [.scalar none (.int 2), .scalar none (.int 3)])]) := by
  decide +kernel
/-- out of order: the pinned loop removes a wrong element (`(l[1])+(l[0])`) -/
example : deletePositional l123 [L 1, L 0] = .map none [(.str ['l'], .seq none [.scalar none (.int 2)])] := by
  decide +kernel
example : delete l123 [L 1, L 0] = .ok (.map none [(.str ['l'], .seq none [.scalar none (.int 3)])]) := by
  decide +kernel
/-- root among the matches: the pinned loop has already deleted `l[0]` when it refuses (`(/)+(l[0])`) -/
example : deletePinned l123 [[], L 0] =
    (.map none [(.str ['l'], .seq none [.scalar none (.int 2), .scalar none (.int 3)])], some (.ypath .noDocument)) := by
  decide +kernel
example : delete l123 [[], L 0] = .error (.ypath .noDocument) := by decide +kernel

/-- integer keys are keys of their own (`ports: {80: 1, 443: 2, '443': 3}`): deleting the member under the integer
`443` removes that member and neither its neighbours nor the member under the text `'443'`; an address that spells the
integer as text names another member (what a delete handed the segment text in place of the key would act on). -/
def ports : Node := .map none [(.str ['p'], .map none
  [(.int 80, .scalar none (.int 1)), (.int 443, .scalar none (.int 2)), (.str ['4', '4', '3'], .scalar none (.int 3))])]
example : delete ports [[.key (.str ['p']), .key (.int 443)]] = .ok (.map none [(.str ['p'], .map none
    [(.int 80, .scalar none (.int 1)), (.str ['4', '4', '3'], .scalar none (.int 3))])]) := by
  decide +kernel
example : delete ports [[.key (.str ['p']), .key (.str ['4', '4', '3'])]] ≠
    delete ports [[.key (.str ['p']), .key (.int 443)]] := by
  decide +kernel

end Ypv.C04
