/-! C19 — property theorems (stub; no obligations yet) -/
