import Ypv.Lemmas.Rotate
import Ypv.Lemmas.Save
/-!
# C19 — EYAML key rotation re-keys every secret once and touches nothing else

The model (`Ypv/Model/Rotate.lean`) walks the document the way `eyaml_rotate_keys.main` does, with
an abstract cipher.  `decryptValue C k s` is the tool's own notion of "the plaintext of the value
`s` under key `k`" (`decrypt_eyaml`: blanks and line breaks removed, the command's output
`rstrip`ped, an empty or unchanged answer is a failure).  The cipher laws are the hypotheses
`Laws C old new` (never axioms):

* `roundtrip`  a plaintext encrypted under the new key decrypts under the new key to itself,
* `wrongKey`   and does not decrypt under the old key,
* `marked`     a ciphertext carries the `ENC[` marker.

`Rel (Good C old new) d d'` says: `d'` has the same shape, keys, order and anchors as `d`; every
encrypted scalar of `d` became a scalar that decrypts under the new key to the plaintext it had
under the old key and no longer decrypts under the old key; every other scalar is identical.

`rotate_once_and_shared` (sharing and call counts) needs neither the cipher laws nor a successful run.

Known findings excluded by explicit hypotheses (witnesses below): a plaintext that itself looks
encrypted is stored raw (C19-F2, `WF`); a document that is a single scalar is not searched
(C19-F3, `isContainer`); trailing blanks of a plaintext are lost — invisible at the level of
`decryptValue`, whose answer is already `rstrip`ped (C19-F1).
-/
namespace Ypv.C19
open Ypv Ypv.Rotate

def isContainer : Node → Bool
  | .seq .. | .map .. => true
  | _ => false

/-- Full statement (not provable for the pinned code, see C19-F2 / C19-F3):
`∀ d, AnchorsConsistent d → (rotate C old new d).2.failed = false → Rel (Good C old new) d (rotate C old new d).1`.

Proved: for every document whose root is a sequence or mapping, whose anchors name one node each
and none of whose plaintexts looks encrypted itself (`WF`), a run that ends with status 0 has
re-keyed every encrypted value and changed nothing else.  Missing for the full statement: the
two input classes of the known findings C19-F2 and C19-F3. -/
theorem rotate_rekeys_partial (C : Cipher) (old new : Str) (L : Laws C old new)
    (tbl : Str → Option Node) (d : Node) (hroot : isContainer d = true)
    (hwf : WF C old tbl d) (hok : (rotate C old new d).2.failed = false) :
    Rel (Good C old new) d (rotate C old new d).1 := by
  have hinv : Inv C old new tbl St.init.seen := by
    intro an n' h; simp [St.init] at h
  cases d with
  | scalar a v => simp [isContainer] at hroot
  | set a ms => simp [isContainer] at hroot
  | seq a xs => exact (rotNode_ok C old new L tbl _ _ hwf hinv hok).1
  | map a es => exact (rotNode_ok C old new L tbl _ _ hwf hinv hok).1

/-- What `Good` gives for one encrypted scalar, spelled out. -/
theorem good_secret (C : Cipher) (old new : Str) (s : Str) (v' : Scalar) (hs : isEyaml s = true)
    (h : Good C old new (.str s) v') :
    ∃ s' p, v' = .str s' ∧ decryptValue C old s = some p ∧ decryptValue C new s' = some p ∧
      decryptValue C old s' = none := by
  unfold Good at h
  simp only [isSecret, hs, if_true] at h
  obtain ⟨s0, s', p, h0, h1, h2, h3, h4, _⟩ := h
  cases h0
  exact ⟨s', p, h1, h2, h3, h4⟩

/-- … and for any other scalar: untouched. -/
theorem good_plain (C : Cipher) (old new : Str) (v v' : Scalar) (hs : isSecret v = false)
    (h : Good C old new v v') : v' = v := by
  unfold Good at h; simpa [hs] using h

/-- Every non-encrypted key, value, ordering and anchor is unchanged: blanking the text of the
secrets, the document after a successful rotation is the document before (same hypotheses as
`rotate_rekeys_partial`; for a scalar or set document the rotation is the identity outright). -/
theorem rotate_frame (C : Cipher) (old new : Str) (L : Laws C old new)
    (tbl : Str → Option Node) (d : Node)
    (hwf : WF C old tbl d) (hok : (rotate C old new d).2.failed = false) :
    mask (rotate C old new d).1 = mask d := by
  cases hd : isContainer d with
  | true => exact mask_of_rel C old new _ _ (rotate_rekeys_partial C old new L tbl d hd hwf hok)
  | false => cases d <;> simp [isContainer] at hd <;> rfl

/-- **Values shared through an anchor are rotated once and stay shared.**

For every document whose anchors name one node each (`WF`; no hypothesis on the cipher, and whether
or not the run fails):

* *stay shared* — there is one anchor table `g` for the whole output: every anchored node of the
  rotated document is the node `g` gives for its anchor name (`AnchorsOne`), so all occurrences of one
  anchor are equal in the output.  `g` is the table of recorded images (`seen`), and the unchanged
  input node for every anchor the loop did not record;
* *rotated once* — for any list `names` holding the anchor name of every anchored encrypted scalar
  (in particular a duplicate-free one), the numbers of decryptions and of encryptions are at most
  the number of un-anchored encrypted scalars plus `names.length`: one cipher round per distinct
  anchored secret, however many aliases it has.

Proof: recorded images are never overwritten (`Ext`, monotonicity of `seen` through the mutual
recursion; an anchored container cannot contain its own anchor: `rotNode_new`), see
`rotNode_shared` and `rotNode_once` in `Lemmas/Rotate.lean`. -/
theorem rotate_once_and_shared (C : Cipher) (old new : Str) (tbl : Str → Option Node) (d : Node)
    (names : List Str) (hwf : WF C old tbl d) (hnames : ∀ an ∈ secretAnchors d, an ∈ names) :
    (∃ g : Str → Option Node, AnchorsOne g (rotate C old new d).1 ∧
      (∀ an n', (rotate C old new d).2.seen.lookup an = some n' → g an = some n') ∧
      (∀ an, (rotate C old new d).2.seen.lookup an = none → g an = tbl an)) ∧
    (rotate C old new d).2.decs ≤ bareCount d + names.length ∧
    (rotate C old new d).2.nonce ≤ bareCount d + names.length := by
  have hc0 : CInv names St.init.seen := ⟨by simp [St.init], fun e he => by simp [St.init] at he⟩
  have key : ∀ n, WF C old tbl n → (∀ an ∈ secretAnchors n, an ∈ names) →
      (∃ g : Str → Option Node, AnchorsOne g (rotNode C old new n St.init).1 ∧
        (∀ an n', (rotNode C old new n St.init).2.seen.lookup an = some n' → g an = some n') ∧
        (∀ an, (rotNode C old new n St.init).2.seen.lookup an = none → g an = tbl an)) ∧
      (rotNode C old new n St.init).2.decs ≤ bareCount n + names.length ∧
      (rotNode C old new n St.init).2.nonce ≤ bareCount n + names.length := by
    intro n hwf hnames
    have hs := rotNode_shared C old new tbl n St.init hwf (sinv_init tbl)
    have ho := rotNode_once C old new tbl names n St.init hwf hnames hc0
    have hle := scalarEntries_le ho.1
    refine ⟨⟨outTbl tbl (rotNode C old new n St.init).2.seen, hs.2.2 _ (Ext.refl _) hs.1.1, ?_, ?_⟩, ?_, ?_⟩
    · intro an n' h; exact outTbl_of_lookup h
    · intro an h; unfold outTbl; rw [h]
    · have h : _ ≤ _ := ho.2.1
      have e1 : St.init.decs = 0 := rfl
      have e2 : scalarEntries St.init.seen = 0 := rfl
      rw [e1, e2] at h; omega
    · have h : _ ≤ _ := ho.2.2
      have e1 : St.init.nonce = 0 := rfl
      have e2 : scalarEntries St.init.seen = 0 := rfl
      rw [e1, e2] at h; omega
  cases d with
  | scalar a v =>
    refine ⟨⟨tbl, ?_, fun an n' h => by simp [rotate, St.init] at h, fun an _ => rfl⟩, by simp [rotate, St.init],
      by simp [rotate, St.init]⟩
    unfold WF at hwf
    show AnchorsOne tbl (.scalar a v)
    unfold AnchorsOne
    exact hwf.1
  | set a ms =>
    refine ⟨⟨tbl, ?_, fun an n' h => by simp [rotate, St.init] at h, fun an _ => rfl⟩, by simp [rotate, St.init],
      by simp [rotate, St.init]⟩
    show AnchorsOne tbl (.set a ms)
    unfold AnchorsOne; trivial
  | seq a xs => exact key _ hwf hnames
  | map a es => exact key _ hwf hnames

/-- The two local facts the loop rests on: an encrypted scalar whose anchor has been rotated already
takes the recorded image and causes no cipher call and no state change at all; the first visit of
an anchored encrypted scalar records its image under its anchor with at most one encryption. -/
theorem alias_takes_recorded_image (C : Cipher) (old new : Str) (an : Str) (s : Str)
    (hs : isEyaml s = true) (st : St) :
    (∀ n', st.seen.lookup an = some n' →
      rotNode C old new (.scalar (some an) (.str s)) st = (n', st)) ∧
    (st.seen.lookup an = none →
      (rotNode C old new (.scalar (some an) (.str s)) st).2.seen.lookup an =
        some (rotNode C old new (.scalar (some an) (.str s)) st).1 ∧
      (rotNode C old new (.scalar (some an) (.str s)) st).2.nonce ≤ st.nonce + 1) := by
  constructor
  · intro n' h
    unfold rotNode; simp [hs, h]
  · intro h
    unfold rotNode
    simp only [hs, if_true, h]
    constructor
    · simp
    · simp only [rotValue]
      split
      · simp
      · split
        · simp
        · simp only []; split <;> omega

/-- A value is treated as encrypted exactly when, ignoring blanks and line breaks, it begins with
the `ENC[` marker. -/
theorem marker_iff (s : Str) :
    isEyaml s = true ↔ "ENC[".toList <+: s.filter (fun c => c ≠ ' ' ∧ c ≠ '\n') := by
  unfold isEyaml clean marker
  rw [List.isPrefixOf_iff_prefix, List.filter_filter]
  have : (s.filter fun a => (decide (a ≠ ' ') && decide (a ≠ '\n'))) =
      s.filter (fun c => decide (c ≠ ' ' ∧ c ≠ '\n')) := by
    congr 1; funext c; simp
  rw [this]

/-- A file holding no encrypted value is neither rewritten nor backed up: the rotation loop makes
no cipher call and reports no change, and the tool's steps on the file are read-only — the file
system afterwards is the file system before. -/
theorem no_secret_no_io (C : Cipher) (old new : Str) (d : Node) (h : noSecret d = true) :
    (rotate C old new d).2.changed = false ∧ (rotate C old new d).2.nonce = 0 ∧
    (rotate C old new d).2.decs = 0 ∧
    ∀ (fs : Save.FS) (saw isFile loadOk backup : Bool) (t : Str) (oc nc : List Save.Bytes),
      Save.run fs (Save.runRotateFile saw isFile loadOk (rotate C old new d).2.changed backup t oc nc) = fs := by
  have key : (rotate C old new d).2.changed = false ∧ (rotate C old new d).2.nonce = 0 ∧
      (rotate C old new d).2.decs = 0 := by
    cases d with
    | scalar a v => exact ⟨rfl, rfl, rfl⟩
    | set a ms => exact ⟨rfl, rfl, rfl⟩
    | seq a xs => exact rotNode_noSecret C old new _ St.init h
    | map a es => exact rotNode_noSecret C old new _ St.init h
  refine ⟨key.1, key.2.1, key.2.2, ?_⟩
  intro fs saw isFile loadOk backup t oc nc
  rw [key.1]
  apply Save.run_readOnly
  intro s hs
  unfold Save.runRotateFile at hs
  cases isFile <;> cases loadOk <;> simp at hs <;> (try rcases hs with rfl | rfl) <;> (try subst hs) <;> rfl

/-! ## The hypotheses are met, and the exclusions are real -/

/-- the stand-in cipher on a concrete document: two secrets (one anchored and aliased), a plain
value; the run succeeds, both secrets are re-keyed, the alias shares the image, one encryption
per distinct secret. -/
private def doc : Node := .map none [
  (.str "a".toList, .scalar none (.str "plain".toList)),
  (.str "b".toList, .scalar (some "s".toList) (.str (fakeEnc "k1".toList 0 "hi".toList))),
  (.str "c".toList, .scalar (some "s".toList) (.str (fakeEnc "k1".toList 0 "hi".toList))),
  (.str "d".toList, .seq none [.scalar none (.str (fakeEnc "k1".toList 0 "yo".toList))])]

example : (rotate fakeCipher "k1".toList "k2".toList doc).1 = .map none [
    (.str "a".toList, .scalar none (.str "plain".toList)),
    (.str "b".toList, .scalar (some "s".toList) (.str (fakeEnc "k2".toList 0 "hi".toList))),
    (.str "c".toList, .scalar (some "s".toList) (.str (fakeEnc "k2".toList 0 "hi".toList))),
    (.str "d".toList, .seq none [.scalar none (.str (fakeEnc "k2".toList 0 "yo".toList))])] := by
  decide +kernel

example : (rotate fakeCipher "k1".toList "k2".toList doc).2.failed = false
    ∧ (rotate fakeCipher "k1".toList "k2".toList doc).2.nonce = 2
    ∧ (rotate fakeCipher "k1".toList "k2".toList doc).2.decs = 2 := by decide +kernel

private def tblDoc : Str → Option Node := fun an =>
  if an = "s".toList then some (.scalar (some "s".toList) (.str (fakeEnc "k1".toList 0 "hi".toList))) else none

/-- the hypotheses of `rotate_once_and_shared` are met by the concrete document: its anchors name
one node each (`WF`), and `["s"]` lists the anchors of its anchored secrets … -/
example : WF fakeCipher "k1".toList tblDoc doc ∧ ∀ an ∈ secretAnchors doc, an ∈ ["s".toList] := by
  have hi : decryptValue fakeCipher "k1".toList (fakeEnc "k1".toList 0 "hi".toList) = some "hi".toList := by
    decide +kernel
  have yo : decryptValue fakeCipher "k1".toList (fakeEnc "k1".toList 0 "yo".toList) = some "yo".toList := by
    decide +kernel
  have pl : decryptValue fakeCipher "k1".toList "plain".toList = none := by decide +kernel
  constructor
  · simp only [doc, WF, WFE, WFL, and_true]
    refine ⟨fun an h => (by cases h), ⟨fun an h => (by cases h), ?_⟩, ⟨?_, ?_⟩, ⟨?_, ?_⟩,
      fun an h => (by cases h), fun an h => (by cases h), ?_⟩
    · intro s p hv hd; cases hv; rw [pl] at hd; cases hd
    · intro an h; cases h; rfl
    · intro s p hv hd; cases hv; rw [hi] at hd; cases hd; decide +kernel
    · intro an h; cases h; rfl
    · intro s p hv hd; cases hv; rw [hi] at hd; cases hd; decide +kernel
    · intro s p hv hd; cases hv; rw [yo] at hd; cases hd; decide +kernel
  · have : secretAnchors doc = ["s".toList, "s".toList] := by decide +kernel
    rw [this]; intro an h; simp at h; simp [h]

/-- … the bound is tight on it (one un-anchored secret + one anchored secret with an alias = 2
decryptions, 2 encryptions), and both occurrences of `&s` are the one recorded image -/
example : bareCount doc + ["s".toList].length = 2
    ∧ (rotate fakeCipher "k1".toList "k2".toList doc).2.decs = 2
    ∧ (rotate fakeCipher "k1".toList "k2".toList doc).2.seen.lookup "s".toList =
        some (.scalar (some "s".toList) (.str (fakeEnc "k2".toList 0 "hi".toList))) := by decide +kernel

/-- the stand-in satisfies the laws on these values -/
example : decryptValue fakeCipher "k2".toList (fakeEnc "k2".toList 0 "hi".toList) = some "hi".toList
    ∧ decryptValue fakeCipher "k1".toList (fakeEnc "k2".toList 0 "hi".toList) = none
    ∧ isEyaml (fakeEnc "k2".toList 0 "hi".toList) = true := by decide +kernel

/-- C19-F3: a document that is one encrypted scalar is left as it is, with status 0. -/
example : (rotate fakeCipher "k1".toList "k2".toList (.scalar none (.str (fakeEnc "k1".toList 0 "hi".toList)))).1 =
      .scalar none (.str (fakeEnc "k1".toList 0 "hi".toList))
    ∧ (rotate fakeCipher "k1".toList "k2".toList (.scalar none (.str (fakeEnc "k1".toList 0 "hi".toList)))).2.failed = false := by
  decide +kernel

/-- C19-F2: a plaintext that looks encrypted is stored raw (here: the inner ciphertext, still
under the old key), with status 0. -/
example : (rotate fakeCipher "k1".toList "k2".toList
      (.seq none [.scalar none (.str (fakeEnc "k1".toList 0 (fakeEnc "k1".toList 0 "in".toList)))])).1 =
    .seq none [.scalar none (.str (fakeEnc "k1".toList 0 "in".toList))] := by decide +kernel

/-- the marker rule on blanks and line breaks inside and around the marker -/
example : isEyaml " E N\nC [x".toList = true ∧ isEyaml "ENC".toList = false ∧ isEyaml "xENC[".toList = false := by
  decide +kernel

end Ypv.C19
