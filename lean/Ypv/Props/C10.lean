/-! C10 — property theorems (stub; no obligations yet) -/
