import Ypv.Lemmas.Anchors
/-!
# C10 — anchor conflicts in a merge follow the chosen policy and the result reloads
-/
namespace Ypv.C10
open Ypv Ypv.Anchors

/-- `_calc_unique_anchor` terminates (within `known.length + 1` rounds) for every anchor name and
every set of known names, and the name it returns collides with no known name. -/
theorem unique_anchor_terminates_fresh (a : Str) (known : List Str) :
    ∃ f, calcUnique a known = some f ∧ f ∉ known := by
  have h := calcUnique_isSome a known
  cases hc : calcUnique a known with
  | none => rw [hc] at h; cases h
  | some f => exact ⟨f, rfl, calcUnique_fresh a known f hc⟩

/-- When every anchor name of a document is borne by one object, the emitter defines each
name exactly once: the serialised document has no duplicate anchor. -/
theorem no_duplicate_anchor_of_oneObj (d : ANode) (h : OneObj (occs d)) : (emittedDefs d).Nodup :=
  defsFrom_nodup _ _ h

end Ypv.C10
