import Ypv.Lemmas.Anchors
/-!
# C10 — anchor conflicts in a merge follow the chosen policy and the result reloads

Model: `Ypv/Model/Anchors.lean` (`resolve` = `Merger._resolve_anchor_conflicts`, with object
identities on anchored scalars).  Policy definitions: `Ypv/Spec/Anchors.lean` (`finalL`, `finalR`,
`hasConflict`).  `ls = scan l`, `rs = scan r` are the name → node dictionaries.

Scope (as in the property): anchors on scalars.  `WF d := OneObj (occs d)` says a document is as the
loader delivers it: all occurrences of one anchor name are one object with one value.
-/
namespace Ypv.C10
open Ypv Ypv.Anchors

/-- `_calc_unique_anchor` terminates (within `known.length + 1` rounds) for every anchor name and
every set of known names, and the name it returns collides with no known name. -/
theorem unique_anchor_terminates_fresh (a : Str) (known : List Str) :
    ∃ f, calcUnique a known = some f ∧ f ∉ known := by
  have h := calcUnique_isSome a known
  cases hc : calcUnique a known with
  | none => rw [hc] at h; cases h
  | some f => exact ⟨f, rfl, calcUnique_fresh a known f hc⟩

/-- **stop refuses**: if some anchor name is defined in both documents with values that are not
equal, `anchors=stop` ends in a merge error (never a crash, never a merged document). -/
theorem stop_refuses (l r : ANode) (h : hasConflict (scan l) (scan r) = true) :
    resolve .stop l r = .error .merge := by
  unfold resolve
  exact (resolveLoop_outcome .stop _ (scan l) (scan r) (l, r)).1 ⟨rfl, h⟩

/-- **every other case is accepted**: under `left`, `right`, `rename` always, and under `stop`
whenever no shared name differs in value — in particular *same-name anchors with equal values
are never a conflict*. -/
theorem accepted_unless_stop_conflict (mode : Mode) (l r : ANode)
    (h : ¬ (mode = .stop ∧ hasConflict (scan l) (scan r) = true)) :
    ∃ p, resolve mode l r = .ok p := by
  unfold resolve
  exact (resolveLoop_outcome mode _ (scan l) (scan r) (l, r)).2 h

/-- **the policies, occurrence by occurrence**: whenever resolution succeeds, the right document is
the image of `r` under `finalR` and the left document the image of `l` under `finalL`
(see `Spec/Anchors.lean`: `left` replaces conflicting right-hand nodes by the left-hand node,
`right` replaces conflicting left-hand nodes by the right-hand node, `rename` gives every occurrence
of a conflicting right-hand name the same fresh name and changes nothing else, equal values make the
left-hand occurrences share the right-hand object; every other occurrence, and all structure that is
not an anchored scalar, is unchanged).  A scalar-root left document is left as it is. -/
theorem resolve_is_policy (mode : Mode) (l r : ANode) (p : ANode × ANode)
    (h : resolve mode l r = .ok p) :
    p.1 = (if isContainer l then mapTags (finalL mode (scan l) (scan r)) l else l) ∧
    p.2 = mapTags (finalR mode (knownOf (scan l) (scan r)) (scan l) (scan r)) r := by
  have := resolve_closed mode l r p h
  rw [this]; exact ⟨rfl, rfl⟩

theorem no_conflict_of_not_hasConflict {ls rs : Dict} (h : hasConflict ls rs = false) :
    ∀ n la ra, ls.lookup n = some la → rs.lookup n = some ra → pyEq la.2 ra.2 = true := by
  intro n la ra h1 h2
  unfold hasConflict at h
  have := (List.any_eq_false.1 h) (n, ra) (mem_of_lookup h2)
  simp only [h1] at this
  simpa using this

/-- **one object per anchor name after resolution**: for loaded documents (`WF`), after a successful
resolution any two anchored scalars anywhere in the two documents that bear the same name are the
same object with the same value — under every policy.  (For `rename` this uses `freshInj`: distinct
conflicting names receive distinct fresh names, none of which collides with an existing name.)
The left document is assumed to be a container (a scalar-root left document is not updated by
`replace_anchor`; merging into a scalar document is not a case the property speaks about). -/
theorem resolved_oneObj (mode : Mode) (l r : ANode) (p : ANode × ANode)
    (hl : OneObj (occs l)) (hr : OneObj (occs r)) (hc : isContainer l = true)
    (h : resolve mode l r = .ok p) :
    OneObj (occs p.1 ++ occs p.2) := by
  have hinj : mode = .rename → FreshInj (knownOf (scan l) (scan r)) := fun _ => freshInj _
  obtain ⟨h1, h2⟩ := resolve_is_policy mode l r p h
  rw [h1, h2, hc]
  simp only [if_true, occs_mapTags]
  apply Ypv.Anchors.resolved_oneObj mode l r hl hr _ hinj
  intro hm
  apply no_conflict_of_not_hasConflict
  cases hcf : hasConflict (scan l) (scan r) with
  | false => rfl
  | true =>
    subst hm
    rw [stop_refuses l r hcf] at h
    cases h

/-- **the result serialises without a duplicate anchor**: any document assembled from nodes of the
two resolved documents (which is what the merge does with anchored scalars) makes the emitter define
each anchor name exactly once. -/
theorem merged_no_duplicate_anchor (l' r' d : ANode) (h : OneObj (occs l' ++ occs r'))
    (hsub : ∀ x ∈ occs d, x ∈ occs l' ++ occs r') : (emittedDefs d).Nodup := by
  apply defsFrom_nodup
  intro a ha b hb hab
  exact h a (hsub a ha) b (hsub b hb) hab

/-- **left reads left / right reads right**: after a successful resolution of loaded documents
under `left` (resp. `right`), every anchored scalar, in either document, whose name is defined in
both documents with different values is the left-hand (resp. right-hand) node. -/
theorem left_reads_left (l r : ANode) (p : ANode × ANode) (hl : OneObj (occs l)) (hr : OneObj (occs r))
    (hc : isContainer l = true) (h : resolve .left l r = .ok p)
    (n : Str) (la ra : Anchored) (h1 : (scan l).lookup n = some la) (h2 : (scan r).lookup n = some ra)
    (hne : pyEq la.2 ra.2 = false) :
    ∀ x ∈ occs p.1 ++ occs p.2, x.1.name = n → x = la := by
  obtain ⟨e1, e2⟩ := resolve_is_policy .left l r p h
  rw [e1, e2, hc]
  simp only [if_true, occs_mapTags]
  intro x hx hn
  have hlan : la.1.name = n := (scan_ok l).1 _ (mem_of_lookup h1)
  rcases List.mem_append.1 hx with hx | hx
  · obtain ⟨a, ha, rfl⟩ := List.mem_map.1 hx
    rw [finalL_name _ _ _ (scan_ok r).1] at hn
    have : a = la := hl a ha la (scan_lookup_mem h1).1 (by rw [hn, hlan])
    subst this
    unfold finalL
    rw [hn, h1, h2]; simp [hne]
  · obtain ⟨b, hb, rfl⟩ := List.mem_map.1 hx
    rw [finalR_name_left _ _ _ (scan_ok l).1] at hn
    unfold finalR
    rw [hn, h1, h2]; simp [hne]

theorem right_reads_right (l r : ANode) (p : ANode × ANode) (hl : OneObj (occs l)) (hr : OneObj (occs r))
    (hc : isContainer l = true) (h : resolve .right l r = .ok p)
    (n : Str) (la ra : Anchored) (h1 : (scan l).lookup n = some la) (h2 : (scan r).lookup n = some ra)
    (hne : pyEq la.2 ra.2 = false) :
    ∀ x ∈ occs p.1 ++ occs p.2, x.1.name = n → x = ra := by
  obtain ⟨e1, e2⟩ := resolve_is_policy .right l r p h
  rw [e1, e2, hc]
  simp only [if_true, occs_mapTags]
  intro x hx hn
  have hran : ra.1.name = n := (scan_ok r).1 _ (mem_of_lookup h2)
  rcases List.mem_append.1 hx with hx | hx
  · obtain ⟨a, ha, rfl⟩ := List.mem_map.1 hx
    rw [finalL_name _ _ _ (scan_ok r).1] at hn
    unfold finalL
    rw [hn, h1, h2]; simp [hne]
  · obtain ⟨b, hb, rfl⟩ := List.mem_map.1 hx
    have hn' : b.1.name = n := by
      rcases finalR_name_cases .right _ (scan l) (scan r) b (scan_ok l).1 with h' | ⟨hm, _, _⟩
      · rw [← h']; exact hn
      · cases hm
    have : b = ra := hr b hb ra (scan_lookup_mem h2).1 (by rw [hn', hran])
    subst this
    unfold finalR
    rw [hn', h1, h2]; simp [hne]

/-- **rename is consistent**: under `rename`, every occurrence of a conflicting right-hand name
ends up with one and the same new name, which no node of either document bore before, keeping its
object and value; left-hand occurrences of that name keep reading the left value. -/
theorem rename_consistent (l r : ANode) (p : ANode × ANode) (hr : OneObj (occs r))
    (h : resolve .rename l r = .ok p)
    (n : Str) (la ra : Anchored) (h1 : (scan l).lookup n = some la) (h2 : (scan r).lookup n = some ra)
    (hne : pyEq la.2 ra.2 = false) :
    ∃ f, f ∉ knownOf (scan l) (scan r) ∧
      ∀ b ∈ occs r, b.1.name = n →
        finalR .rename (knownOf (scan l) (scan r)) (scan l) (scan r) b = ({ b.1 with name := f }, b.2) := by
  obtain ⟨f, hf, hfresh⟩ := unique_anchor_terminates_fresh n (knownOf (scan l) (scan r))
  refine ⟨f, hfresh, ?_⟩
  intro b hb hn
  unfold finalR
  rw [hn, h1, h2]
  simp [hne, hf]

/-- Non-vacuity: a concrete conflicting pair; `stop` refuses, `rename` renames to `x_1`. -/
def exL : ANode := .map [(.str ['a'], .scalar (some ⟨['x'], 1⟩) (.int 1)), (.str ['b'], .scalar (some ⟨['x'], 1⟩) (.int 1))]
def exR : ANode := .map [(.str ['d'], .scalar (some ⟨['x'], 2⟩) (.int 2))]
example : hasConflict (scan exL) (scan exR) = true := by decide +kernel
example : OneObj (occs exL) := by
  intro a ha b hb _
  simp [exL, occs, occs.occsEntries] at ha hb
  rcases ha with rfl | rfl <;> rcases hb with rfl | rfl <;> rfl

end Ypv.C10
