import Ypv.Lemmas.EditSet
/-!
# C03 — a set changes exactly the matched nodes (and their aliases), nothing else

Model: `Ypv.setValue` / `setStep` (`Model/Edit.lean`) = `Processor.set_value` → `_apply_change` →
`_update_node` + `recurse` as repaired by `fixes/C03-1.patch`, over the list of matched addresses.
Specification: `Ypv.setSpec` (`Spec/Edit.lean`): ONE pass over the ORIGINAL document in which a node
is replaced iff its address is matched or it carries the anchor name of a matched node.
-/
namespace Ypv.C03
open Ypv

/-- the predicate of one model step is the target predicate of the one-address specification -/
theorem isRef_eq_isTarget (d : Node) (a : Addr) (n : Node) (h : d.get? a = some n) :
    isRef a n.anchor = isTarget d [a] := by
  funext y m
  simp only [isRef, isTarget, matchedAnchors, List.filterMap_cons, List.filterMap_nil, h, Option.bind_some]
  cases hn : n.anchor <;> cases hm : m.anchor <;> simp [List.contains_cons, hn]
  all_goals (rw [Bool.eq_iff_iff]; simp)

/-- **set_step_eq_spec.** One matched address: the model step equals the specification — the
matched node and every node carrying its anchor name (its aliases, under map keys and inside
sequences alike) hold the new scalar with their anchor kept, nothing else is entered or changed
(not equal scalars elsewhere, not keys spelled like the old value). -/
theorem set_step_eq_spec (v : Scalar) (fmt : Fmt) (d : Node) (a : Addr) (n : Node) (s : Scalar)
    (ha : a ≠ []) (hm : lastIsMember a = false) (hget : d.get? a = some n)
    (hs : newScalar n.anchor.isSome v fmt = .ok s) :
    setStep v fmt d a = .ok (setSpec d [a] s) := by
  unfold setStep setSpec
  simp [ha, hm, hget, hs, isRef_eq_isTarget d a n hget]

/-- The document after the steps for `addrs` when every new scalar is `s`. -/
def stepsDoc (s : Scalar) : Node → List Addr → Node
  | d, [] => d
  | d, a :: rest => stepsDoc s (setSpec d [a] s) rest

/-- The targets of the addresses still to be processed are not affected by the steps already made
(holds when the matched nodes are scalars and only scalars carry anchors: a step then replaces
scalars by scalars with the same anchors at the same addresses). -/
def Stable (s : Scalar) : Node → List Addr → Prop
  | _, [] => True
  | d, a :: rest => isTarget (setSpec d [a] s) rest = isTarget d rest ∧ Stable s (setSpec d [a] s) rest

theorem isTarget_anchor_only (d : Node) (addrs : List Addr) (y : Addr) (n n' : Node)
    (h : n.anchor = n'.anchor) : isTarget d addrs y n = isTarget d addrs y n' := by
  simp [isTarget, h]

theorem isTarget_cons (d : Node) (a : Addr) (rest : List Addr) :
    (fun y n => isTarget d [a] y n || isTarget d rest y n) = isTarget d (a :: rest) := by
  funext y n
  simp only [isTarget, matchedAnchors, List.filterMap_cons, List.filterMap_nil, List.contains_cons]
  cases hn : n.anchor with
  | none => simp [List.contains_cons]
  | some x =>
    cases hg : (d.get? a).bind Node.anchor <;> simp [List.contains_cons, Bool.or_assoc, Bool.or_comm, Bool.or_left_comm]

/-- /-  FULL STATEMENT (not proved): for every `d` in which only scalars carry anchors and every
`addrs` whose nodes are scalars, `setValue v fmt d addrs = .ok (setSpec d addrs s)`.  -/
**set_eq_spec_partial.** The sequence of model steps over ANY list of matched addresses equals the
one-shot specification on the original document, provided the targets are `Stable`.
Missing for the full statement: the lemma `Stable s d addrs` from "matched nodes are scalars and only
scalars carry anchors" (`get?` through `mapAt`); everything else — in particular that the passes
compose (`mapAt_mapAt`) — is proved. -/
theorem set_eq_spec_partial (s : Scalar) : ∀ (d : Node) (addrs : List Addr), Stable s d addrs →
    stepsDoc s d addrs = setSpec d addrs s
  | d, [], _ => by
    simp only [stepsDoc, setSpec]
    exact (mapAt_none d _ _ (by intro y n; simp [isTarget, matchedAnchors]; cases n.anchor <;> simp)).symm
  | d, a :: rest, h => by
    obtain ⟨h1, h2⟩ := h
    have ih := set_eq_spec_partial s (setSpec d [a] s) rest h2
    simp only [stepsDoc, ih]
    unfold setSpec at *
    rw [h1, mapAt_mapAt d _ _ s (fun y n n' hh => isTarget_anchor_only d rest y n n' hh), isTarget_cons]

/-- **set_frame.** The frame of every pass: a subtree in which no node is a target is returned
unchanged; a mapping keeps all its keys in order (no key is ever renamed, however it is spelled);
a sequence keeps its length, hence every element its position. -/
theorem set_frame (p : Addr → Node → Bool) (f : Node → Node) :
    (∀ d : Node, (∀ y n, p y n = false) → d.mapAt p f = d)
    ∧ (∀ es, (mapAtEntries p f es).map Prod.fst = es.map Prod.fst)
    ∧ (∀ i cs, (mapAtList p f i cs).length = cs.length) :=
  ⟨fun d h => mapAt_none d p f h, mapAtEntries_keys p f, mapAtList_length p f⟩

/-- **set_keeps_anchors.** A replaced node keeps its anchor name and every replaced node holds the
same scalar: all nodes that carried one anchor name before still carry it and — being replaced
together — are equal afterwards (the in-model reading of "no duplicate or undefined anchors"). -/
theorem set_keeps_anchors (s : Scalar) (n m : Node) (h : n.anchor = m.anchor) :
    putScalar s n = putScalar s m ∧ (putScalar s n).anchor = n.anchor := by
  refine ⟨by simp [putScalar, h], putScalar_anchor s n⟩

/-! ### Concrete witnesses -/

def I (a : Option Str) (i : Int) : Node := .scalar a (.int i)

/-- `[1, 1, 2]`, set `[1]`: only the second element changes (the pinned code changes both). -/
example : setValue (.int 9) .default (.seq none [I none 1, I none 1, I none 2]) [[.idx 1]]
    = .ok (.seq none [I none 1, I none 9, I none 2]) := by decide +kernel
/-- `{a: b, b: x}`, set `a`: the key `b` stays (the pinned code renames it). -/
example : setValue (.str ['z']) .default
      (.map none [(.str ['a'], .scalar none (.str ['b'])), (.str ['b'], .scalar none (.str ['x']))]) [[.key (.str ['a'])]]
    = .ok (.map none [(.str ['a'], .scalar none (.str ['z'])), (.str ['b'], .scalar none (.str ['x']))]) := by
  decide +kernel
/-- `a: &x 1`, `b: [*x, 2]`, set `a`: the alias inside the sequence follows. -/
example : setValue (.int 5) .default
      (.map none [(.str ['a'], I (some ['x']) 1), (.str ['b'], .seq none [I (some ['x']) 1, I none 2])]) [[.key (.str ['a'])]]
    = .ok (.map none [(.str ['a'], I (some ['x']) 5), (.str ['b'], .seq none [I (some ['x']) 5, I none 2])]) := by
  decide +kernel
end Ypv.C03
