/-! C03 — property theorems (stub; no obligations yet) -/
