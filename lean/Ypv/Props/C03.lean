import Ypv.Spec.Edit
/-! C03 — property theorems (under construction) -/
namespace Ypv.C03
theorem placeholder : deletePositional (.scalar none .null) [] = .scalar none .null := rfl
end Ypv.C03
