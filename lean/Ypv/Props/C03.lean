import Ypv.Lemmas.EditHistory
import Ypv.Props.C04
import Ypv.Props.C09
/-!
# C03 — a set changes exactly the matched nodes (and their aliases), nothing else

Model: `Ypv.setValue` / `setStep` (`Model/Edit.lean`) = `Processor.set_value` → `_apply_change` →
`_update_node` + `recurse` as repaired by `fixes/C03-1.patch`, over the list of matched addresses.
Specification: `Ypv.setSpec` (`Spec/Edit.lean`): ONE pass over the ORIGINAL document in which a node
is replaced iff its address is matched or it carries the anchor name of a matched node.
-/
namespace Ypv.C03
open Ypv

/-- **set_step_eq_spec.** One matched address: the model step equals the specification — the
matched node and every node carrying its anchor name (its aliases, under map keys and inside
sequences alike) hold the new scalar with their anchor kept, nothing else is entered or changed
(not equal scalars elsewhere, not keys spelled like the old value). -/
theorem set_step_eq_spec (v : Scalar) (fmt : Fmt) (d : Node) (a : Addr) (n : Node) (s : Scalar)
    (ha : a ≠ []) (hm : lastIsMember a = false) (hget : d.get? a = some n)
    (hs : newScalar n.anchor.isSome v fmt = .ok s) :
    setStep v fmt d a = .ok (setSpec d [a] s) := by
  unfold setStep setSpec
  simp [ha, hm, hget, hs, isRef_eq_isTarget d a n hget]

/-- **set_eq_spec.**  For every document of the model class (`ScalarAnchors`: below the root only
scalars carry anchors) and EVERY list of matched addresses that lead to scalars (`MatchedScalars`:
any number, any order, repeats, an anchor together with its own aliases), the sequence of model steps
`set_value` performs equals the ONE-SHOT specification on the ORIGINAL document: a node holds the new
scalar (anchor kept) iff its address is matched or it carries the anchor name of a matched node;
nothing else is entered or changed.  `s` is the scalar `make_new_node` produces for the matched nodes
(hypothesis `hv`; see `set_ok_eq_spec` for the form without it). -/
theorem set_eq_spec (v : Scalar) (fmt : Fmt) (s : Scalar) : ∀ (d : Node) (addrs : List Addr),
    MatchedScalars d addrs → ScalarAnchors d →
    (∀ a ∈ addrs, ∀ n, d.get? a = some n → newScalar n.anchor.isSome v fmt = .ok s) →
    setValue v fmt d addrs = .ok (setSpec d addrs s)
  | d, [], _, _, _ => by simp [setValue, setSpec_nil]
  | d, a :: rest, hm, hs, hv => by
    obtain ⟨hm1, hmr⟩ := matchedScalars_tail hm
    obtain ⟨ha, hmem, n, hg, _⟩ := hm a (by simp)
    have hstep := set_step_eq_spec v fmt d a n s ha hmem hg (hv a (by simp) n hg)
    have ih := set_eq_spec v fmt s (setSpec d [a] s) rest (matchedScalars_setSpec hm1 hs s hmr)
      (scalarAnchors_setSpec hm1 hs s) (by
        intro b hb n' hg'
        obtain ⟨_, _, n0, hg0, _⟩ := hmr b hb
        obtain ⟨n1, hg1, _, hanc, _⟩ := get?_setSpec_inv hm1 hs s b (hmr b hb).1 n' hg'
        rw [hanc]; exact hv b (by simp [hb]) n1 hg1)
    simp only [setValue, hstep, ih, setSpec_setSpec hm hs s]

/-- `make_new_node` yields the same scalar for an anchored and for a plain source node whenever it
yields one for both (an anchored source only adds failures: `None` cannot carry an anchor). -/
theorem newScalar_indep (v : Scalar) (fmt : Fmt) (b b' : Bool) (s s' : Scalar)
    (h : newScalar b v fmt = .ok s) (h' : newScalar b' v fmt = .ok s') : s = s' := by
  cases fmt <;> try (simp only [newScalar] at h h'; rw [h] at h'; cases h'; rfl)
  cases v <;> simp only [newScalar] at h h'
  case null => cases b <;> cases b' <;> simp at h h'; rw [← h, ← h']
  case str t =>
    cases ht : eTypedValue t <;> simp only [ht] at h h' <;> try (rw [h] at h'; cases h'; rfl)
    cases b <;> cases b' <;> simp at h h'; rw [← h, ← h']
  all_goals (rw [h] at h'; cases h'; rfl)

/-- **literal_text_kept.**  A new value given as TEXT that is a simple quoted Python string literal
(`'abc'`, `"two words"`) or an integer look-alike (`0x1F`, `0o17`, `0b101`, `(1)`, `- 5`: an `int` for
`ast.literal_eval`, a `ValueError` for `int()`) is stored AS THAT TEXT, quotation marks and all: in the
DEFAULT format `make_new_node` yields the text for a plain and for an anchored source node alike (so by
`set_eq_spec` every matched node and every alias holds it — the set is not refused), and `wrap_type`
— the value of nodes created for a missing path — yields it too (C09: the created path resolves to
the supplied value). -/
theorem literal_text_kept (anchored : Bool) (s : Str)
    (h : isQuotedLit s = true ∨ isIntLookalike s = true) :
    newScalar anchored (.str s) .default = .ok (.str s) ∧ wrapType (.str s) = .ok (.str s) := by
  have ht : eTypedValue s = .str := by
    unfold eTypedValue
    cases h with
    | inl h => simp [h]
    | inr h => simp [h]
  simp [newScalar, wrapType, ht]

-- the hypotheses are met by the texts the property module generates; neighbours are outside the classes
example : isQuotedLit "'abc'".toList = true ∧ isQuotedLit "\"two words\"".toList = true ∧
    isQuotedLit "''".toList = true ∧ isQuotedLit "it's".toList = false ∧ isQuotedLit "'a'b'".toList = false ∧
    isQuotedLit "'a\\nb'".toList = false ∧ isQuotedLit "'".toList = false := by decide +kernel
example : isIntLookalike "0x1F".toList = true ∧ isIntLookalike "-0o17".toList = true ∧
    isIntLookalike "0b101".toList = true ∧ isIntLookalike "(1)".toList = true ∧
    isIntLookalike "(-12)".toList = true ∧ isIntLookalike "- 5".toList = true ∧
    isIntLookalike "31".toList = false ∧ isIntLookalike "0x".toList = false ∧
    isIntLookalike "0b102".toList = false ∧ isIntLookalike "(1.5)".toList = false ∧
    isIntLookalike "(01)".toList = false ∧ isIntLookalike "1_000".toList = false := by decide +kernel
example : newScalar true (.str "0x1F".toList) .default = .ok (.str "0x1F".toList) ∧
    newScalar false (.str "0x1F".toList) .int = .error valueError ∧
    wrapType (.str "'abc'".toList) = .ok (.str "'abc'".toList) ∧
    newScalar false (.str "31".toList) .default = .ok (.int 31) := by decide +kernel

/-- a successful `set_value` means `make_new_node` succeeded for every matched node -/
theorem setValue_ok_scalars (v : Scalar) (fmt : Fmt) (d' : Node) : ∀ (d : Node) (addrs : List Addr),
    MatchedScalars d addrs → ScalarAnchors d → setValue v fmt d addrs = .ok d' →
    ∀ b ∈ addrs, ∀ n, d.get? b = some n → ∃ s, newScalar n.anchor.isSome v fmt = .ok s
  | d, [], _, _, _ => by intro b hb; cases hb
  | d, a :: rest, hm, hs, hok => by
    obtain ⟨hm1, hmr⟩ := matchedScalars_tail hm
    obtain ⟨ha, hmem, n, hg, _⟩ := hm a (by simp)
    cases hn : newScalar n.anchor.isSome v fmt with
    | error e => simp [setValue, setStep, ha, hmem, hg, hn] at hok
    | ok s =>
      have hstep := set_step_eq_spec v fmt d a n s ha hmem hg hn
      simp only [setValue, hstep] at hok
      have ih := setValue_ok_scalars v fmt d' (setSpec d [a] s) rest (matchedScalars_setSpec hm1 hs s hmr)
        (scalarAnchors_setSpec hm1 hs s) hok
      intro b hb m hgm
      rcases List.mem_cons.mp hb with rfl | hb
      · rw [hg] at hgm; cases hgm; exact ⟨s, hn⟩
      · have := ih b hb (imageAt (isTarget d [a]) s b m)
          (by rw [get?_setSpec hm1 hs s b (hmr b hb).1, hgm]; rfl)
        rwa [imageAt_anchor] at this

/-- **set_ok_eq_spec.**  The same without assuming the new scalar: whenever `set_value` succeeds on
a list of matched scalars of a model-class document, the outcome is the one-shot specification for
ONE scalar `s` (`make_new_node` yields the same scalar for every matched node). -/
theorem set_ok_eq_spec (v : Scalar) (fmt : Fmt) (d d' : Node) (addrs : List Addr)
    (hm : MatchedScalars d addrs) (hs : ScalarAnchors d) (hok : setValue v fmt d addrs = .ok d') :
    ∃ s, d' = setSpec d addrs s := by
  have hall := setValue_ok_scalars v fmt d' d addrs hm hs hok
  cases addrs with
  | nil => simp [setValue] at hok; exact ⟨.null, by rw [setSpec_nil, hok]⟩
  | cons a rest =>
    obtain ⟨_, _, n, hg, _⟩ := hm a (by simp)
    obtain ⟨s, hsn⟩ := hall a (by simp) n hg
    refine ⟨s, ?_⟩
    have := set_eq_spec v fmt s d (a :: rest) hm hs (by
      intro b hb m hgm
      obtain ⟨s', hs'⟩ := hall b hb m hgm
      rw [hs', newScalar_indep v fmt _ _ s s' hsn hs'])
    rw [this] at hok; cases hok; rfl

/-- **set_frame.** The frame of every pass: a subtree in which no node is a target is returned
unchanged; a mapping keeps all its keys in order (no key is ever renamed, however it is spelled);
a sequence keeps its length, hence every element its position. -/
theorem set_frame (p : Addr → Node → Bool) (f : Node → Node) :
    (∀ d : Node, (∀ y n, p y n = false) → d.mapAt p f = d)
    ∧ (∀ es, (mapAtEntries p f es).map Prod.fst = es.map Prod.fst)
    ∧ (∀ i cs, (mapAtList p f i cs).length = cs.length) :=
  ⟨fun d h => mapAt_none d p f h, mapAtEntries_keys p f, mapAtList_length p f⟩

/-- **set_keeps_anchors.** A replaced node keeps its anchor name and every replaced node holds the
same scalar: all nodes that carried one anchor name before still carry it and — being replaced
together — are equal afterwards (the in-model reading of "no duplicate or undefined anchors"). -/
theorem set_keeps_anchors (s : Scalar) (n m : Node) (h : n.anchor = m.anchor) :
    putScalar s n = putScalar s m ∧ (putScalar s n).anchor = n.anchor := by
  refine ⟨by simp [putScalar, h], putScalar_anchor s n⟩

/-- **set_preserves_anchorWF** (whole documents).  In a model-class document in which all nodes
carrying one anchor name are equal (`AnchorWF`: an anchor and its aliases), a set through ANY matched
scalars — the anchored node itself, one of its aliases, several of them, bystanders — leaves a document
in which all nodes carrying one anchor name are again equal: an anchor is never left with an alias of a
different value (the in-model reading of "dumps without duplicate or undefined anchors"). -/
theorem set_preserves_anchorWF (s : Scalar) (d : Node) (addrs : List Addr)
    (hm : MatchedScalars d addrs) (hs : ScalarAnchors d) (hw : AnchorWF d) :
    AnchorWF (setSpec d addrs s) := by
  intro y y' n' m' hy hy' hg hg' ha he
  obtain ⟨n, hgn, hn', hanc, _⟩ := get?_setSpec_inv hm hs s y hy n' hg
  obtain ⟨m, hgm, hm', hancm, _⟩ := get?_setSpec_inv hm hs s y' hy' m' hg'
  have hnm : n = m := hw y y' n m hy hy' hgn hgm (by rw [← hanc]; exact ha) (by rw [← hanc, ← hancm]; exact he)
  subst hnm
  cases hx : n.anchor with
  | none => rw [hanc, hx] at ha; cases ha
  | some x =>
    rw [hn', hm', imageAt_anchored hs s hy hgn hx, imageAt_anchored hs s hy' hgm hx]

/-- The same for the model run: after a successful `set_value` the document is anchor-well-formed
and still in the model class (so the statement carries over to every later edit). -/
theorem set_preserves_anchorWF_model (v : Scalar) (fmt : Fmt) (d d' : Node) (addrs : List Addr)
    (hm : MatchedScalars d addrs) (hs : ScalarAnchors d) (hw : AnchorWF d)
    (hok : setValue v fmt d addrs = .ok d') : AnchorWF d' ∧ ScalarAnchors d' := by
  obtain ⟨s, rfl⟩ := set_ok_eq_spec v fmt d d' addrs hm hs hok
  exact ⟨set_preserves_anchorWF s d addrs hm hs hw, scalarAnchors_setSpec hm hs s⟩

/-! ### Histories: the model refines a plain-data model

`Node.plain` erases every anchor (aliases are already expanded in `Node`).  The plain-data model
(`POp`, `runPlain` in `Spec/Edit.lean`) has three elementary edits, none of which can look at an
anchor: put a scalar at the nodes whose ADDRESS is in a given set, remove the nodes at a set of
addresses, replace the node at one address.  `OpAbs d op pops` reads an operation performed in the
anchored document `d` as plain edits: a set is one `put` per `_update_node` call, at the addresses of
the matched node and of the nodes carrying its anchor name in the document of that moment
(`stepAbs`); a delete is `remove` of the matched addresses; a creation is a `graft` of the node
`createHere` builds at the deepest existing node (C09 `create_exact`) followed by the `put` of the
value.  Documents have pairwise different mapping keys (`Node.keysNodup`; true of every loaded YAML
document) — this is what makes "the nodes at these addresses" the same thing in both models. -/

/-- every operation has a plain-data reading -/
theorem opAbs_total (d : Node) (op : Op) : ∃ pops, OpAbs d op pops := by
  cases op with
  | set addrs v fmt =>
    cases h : setValue v fmt d addrs with
    | error e => exact ⟨[], .failed (e := e) (by simp [Op.apply, h])⟩
    | ok d' => exact ⟨_, .set h⟩
  | delete addrs =>
    by_cases h : [] ∈ addrs
    · exact ⟨[], .failed (e := .ypath .noDocument) (by simp [Op.apply, C04.delete_root_refused d addrs h])⟩
    · exact ⟨_, .delete h⟩
  | create segs v fmt =>
    cases hw : wrapType v with
    | error e => exact ⟨[], .failed (e := e) (by simp [Op.apply, setOrCreate, getOrCreate, hw])⟩
    | ok leaf =>
      cases hc : d.createPath leaf segs with
      | error e => exact ⟨[], .failed (e := e) (by simp [Op.apply, setOrCreate, getOrCreate, hw, hc])⟩
      | ok r =>
        cases hs : setStep v fmt r.doc r.addr with
        | error e => exact ⟨[], .failed (e := e) (by simp [Op.apply, setOrCreate, getOrCreate, hw, hc, hs])⟩
        | ok d' =>
          cases C09.create_exact leaf d segs r hc with
          | present n hf hd => exact ⟨_, .createNone hw hc hd (by rw [← hd]; exact hs)⟩
          | nullRelay pre seg rest q n ref _ _ _ _ hd _ => exact ⟨_, .createNone hw hc hd (by rw [← hd]; exact hs)⟩
          | created pre seg rest q n n' hseg hf hl hch hd ha => exact ⟨_, .created hw hc hseg hf hl hch hd hs⟩

/-- **One operation on plain data** (from `C04.delete_eq_spec`, `C09.create_exact`, `step_refines`):
erasing the anchors after the operation = running its plain-data reading on the erased document. -/
theorem opAbs_sound (d : Node) (op : Op) (pops : List POp) (hk : d.keysNodup = true) (h : OpAbs d op pops) :
    (op.step d).plain = runPlain d.plain pops ∧ (op.step d).keysNodup = true := by
  cases h with
  | failed he => simp only [Op.step, he, runPlain]; exact ⟨trivial, hk⟩
  | set hs =>
    simp only [Op.step, Op.apply, hs]
    exact setAbs_refines _ _ _ d _ hk hs
  | delete hr =>
    rename_i addrs
    have : delete d addrs = .ok (d.removeAll addrs) := by rw [C04.delete_eq_spec]; simp [deleteSpec, hr]
    simp only [Op.step, Op.apply, this, runPlain, POp.apply]
    exact ⟨plain_removeAll d _, keysNodup_removeAll d _ hk⟩
  | createNone hw hc hd hs =>
    rename_i d' segs v fmt leaf r
    have : setOrCreate d segs v fmt = .ok d' := by
      simp only [setOrCreate, getOrCreate, hw, hc, hd]; exact hs
    simp only [Op.step, Op.apply, this, runPlain]
    exact step_refines _ _ d _ _ hk hs
  | created hw hc hseg hf hl hch hd hs =>
    rename_i d' segs v fmt leaf r pre seg rest q n n'
    have : setOrCreate d segs v fmt = .ok d' := by
      simp only [setOrCreate, getOrCreate, hw, hc]; exact hs
    simp only [Op.step, Op.apply, this, runPlain]
    have hkn' := createHere_keysNodup (keysNodup_get? q d n hk hf.get?) hl hch
    have hk1 : r.doc.keysNodup = true := by rw [hd]; exact keysNodup_graftAt n' hkn' d q hk
    obtain ⟨h1, h2⟩ := step_refines v fmt r.doc d' r.addr hk1 hs
    refine ⟨?_, h2⟩
    rw [h1, hd, plain_graftAt (fun _ => n') (fun _ => n'.plain) (fun _ => rfl) d q]
    rfl

/-- **history_refines.**  For EVERY list of set / delete / create operations (any matched addresses,
any values; failing operations change nothing) and every document with pairwise different mapping
keys, the history has a plain-data reading `pops` (`HistAbs`: operation by operation, in the document
of that moment) and erasing the anchors COMMUTES with running it:
`(runOps d ops).plain = runPlain d.plain pops`. -/
theorem history_refines : ∀ (ops : List Op) (d : Node), d.keysNodup = true →
    ∃ pops, HistAbs d ops pops ∧ (runOps d ops).plain = runPlain d.plain pops ∧ (runOps d ops).keysNodup = true
  | [], d, hk => ⟨[], .nil d, rfl, hk⟩
  | op :: ops, d, hk => by
    obtain ⟨p1, ha⟩ := opAbs_total d op
    obtain ⟨h1, hk1⟩ := opAbs_sound d op p1 hk ha
    obtain ⟨p2, hb, h2, hk2⟩ := history_refines ops (op.step d) hk1
    have hrun : runOps d (op :: ops) = runOps (op.step d) ops := by
      simp only [runOps, Op.step]; cases op.apply d <;> rfl
    exact ⟨p1 ++ p2, .cons ha hb, by rw [hrun, h2, h1, runPlain_append], by rw [hrun]; exact hk2⟩

/-- The plain-data outcome does not depend on which reading of the history is taken (the only
freedom `OpAbs` leaves is how a creation is split into existing prefix and missing tail). -/
theorem history_refines_det (ops : List Op) (d : Node) (pops pops' : List POp)
    (h : HistAbs d ops pops) (h' : HistAbs d ops pops') (hk : d.keysNodup = true) :
    runPlain d.plain pops = runPlain d.plain pops' := by
  induction h generalizing pops' with
  | nil d => cases h'; rfl
  | cons ha hb ih =>
    cases h' with
    | cons ha' hb' =>
      obtain ⟨h1, hk1⟩ := opAbs_sound _ _ _ hk ha
      obtain ⟨h1', _⟩ := opAbs_sound _ _ _ hk ha'
      rw [runPlain_append, runPlain_append, ← h1, ← h1']
      exact ih _ hb' hk1

/-! ### Concrete witnesses -/

def I (a : Option Str) (i : Int) : Node := .scalar a (.int i)

/-- `[1, 1, 2]`, set `[1]`: only the second element changes (the pinned code changes both). -/
example : setValue (.int 9) .default (.seq none [I none 1, I none 1, I none 2]) [[.idx 1]]
    = .ok (.seq none [I none 1, I none 9, I none 2]) := by decide +kernel
/-- `{a: b, b: x}`, set `a`: the key `b` stays (the pinned code renames it). -/
example : setValue (.str ['z']) .default
      (.map none [(.str ['a'], .scalar none (.str ['b'])), (.str ['b'], .scalar none (.str ['x']))]) [[.key (.str ['a'])]]
    = .ok (.map none [(.str ['a'], .scalar none (.str ['z'])), (.str ['b'], .scalar none (.str ['x']))]) := by
  decide +kernel
/-- `a: &x 1`, `b: [*x, 2]`, set `a`: the alias inside the sequence follows. -/
example : setValue (.int 5) .default
      (.map none [(.str ['a'], I (some ['x']) 1), (.str ['b'], .seq none [I (some ['x']) 1, I none 2])]) [[.key (.str ['a'])]]
    = .ok (.map none [(.str ['a'], I (some ['x']) 5), (.str ['b'], .seq none [I (some ['x']) 5, I none 2])]) := by
  decide +kernel

/-- `a: &x 1`, `b: [*x, 2]`, `c: 1`: the hypotheses of `set_eq_spec` / `set_preserves_anchorWF` are
met by a document with an anchored scalar, its alias inside a sequence and an equal bystander, for a
match list naming the alias, the anchor and the alias again. -/
def docX : Node := .map none [(.str ['a'], I (some ['x']) 1),
  (.str ['b'], .seq none [I (some ['x']) 1, I none 2]), (.str ['c'], I none 1)]
def addrsX : List Addr := [[.key (.str ['b']), .idx 0], [.key (.str ['a'])], [.key (.str ['b']), .idx 0]]
example : ScalarAnchors docX := scalarAnchors_of_below _ (by decide +kernel)
example : AnchorWF docX := anchorWF_of_below _ (by decide +kernel)
example : MatchedScalars docX addrsX := by
  intro a ha
  simp [addrsX] at ha
  rcases ha with rfl | rfl | rfl <;> exact ⟨by decide, by decide, I (some ['x']) 1, by decide +kernel, rfl⟩
example : setValue (.int 5) .default docX addrsX = .ok (setSpec docX addrsX (.int 5)) := by decide +kernel
example : setSpec docX addrsX (.int 5) = .map none [(.str ['a'], I (some ['x']) 5),
  (.str ['b'], .seq none [I (some ['x']) 5, I none 2]), (.str ['c'], I none 1)] := by decide +kernel
/-- why the model class is needed: an anchored CONTAINER with an alias, set through the anchor —
the alias copy keeps the old content (out of model: Python shares the object). -/
example : ¬ AnchorWF (setSpec (.map none [(.str ['a'], .seq (some ['x']) [I none 1]), (.str ['b'], .seq (some ['x']) [I none 1])])
    [[.key (.str ['a']), .idx 0]] (.int 5)) := by
  intro h
  have := h [.key (.str ['a'])] [.key (.str ['b'])] (.seq (some ['x']) [I none 5]) (.seq (some ['x']) [I none 1])
    (by simp) (by simp) (by decide +kernel) (by decide +kernel) rfl rfl
  revert this; decide +kernel

/-- a history over `docX` (anchored scalar + alias): set through the anchor, delete a list element,
create `n[1]`; and its plain-data reading — the `put` of the first step names the alias address too. -/
def histX : List Op := [.set [[.key (.str ['a'])]] (.int 5) .default, .delete [[.key (.str ['b']), .idx 1]],
  .create [.key ['n'], .index 1] (.str ['x']) .default]
example : docX.keysNodup = true := by decide +kernel
example : (runOps docX histX).plain = runPlain docX.plain
    [.put (fun y => y == [.key (.str ['a'])] || y == [.key (.str ['b']), .idx 0]) (.int 5),
     .remove [[.key (.str ['b']), .idx 1]],
     .graft [] (.map none [(.str ['a'], I none 5), (.str ['b'], .seq none [I none 5]), (.str ['c'], I none 1),
        (.str ['n'], .seq none [.scalar none (.str ['x']), .scalar none (.str ['x'])])]),
     .put (fun y => y == [.key (.str ['n']), .idx 1]) (.str ['x'])] := by decide +kernel
example : OpAbs docX (.set [[.key (.str ['a'])]] (.int 5) .default)
    (setAbs (.int 5) .default docX [[.key (.str ['a'])]]) :=
  .set (d' := setSpec docX [[.key (.str ['a'])]] (.int 5)) (by decide +kernel)
end Ypv.C03
