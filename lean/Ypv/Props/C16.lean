import Ypv.Lemmas.Cli
/-!
# C16 — the command-line tools deliver the library's answers and honest exit codes

Theorems about the model of the six `main()` functions (`Model/Cli.lean`).  Every statement is for ALL
argument records, TTY states, load results and ALL library answers (the evaluator `ev`, the differ,
the path search `find`, the pairwise merge `m` are arbitrary functions).  PARTIAL BY DESIGN: argparse,
(de)serialisation and text layout are outside the model; the tie to the real tools is the
correspondence run of `harness/props/c16.py`.
-/
namespace Ypv.Cli

/-! ## yaml-get -/

/-- yaml-get exits 0 exactly when its arguments are accepted, the input loaded, the evaluator raised
nothing and yielded at least one node. -/
theorem get_exit_zero_iff_matched (ev : Node → Query) (a : GetArgs) (tty : Bool) (ld : Option Node) :
    (get ev a tty ld).exit = 0 ↔
      getErrors a tty = [] ∧ ∃ d, ld = some d ∧ (ev d).err = none ∧ (ev d).nodes ≠ [] :=
  Lemmas.get_exit_zero_iff ev a tty ld

/-- One output item per matched node, in query order: on success the output is the rendering of the
evaluator's nodes, position by position; a failing run prints nothing. -/
theorem get_lines_are_results (ev : Node → Query) (a : GetArgs) (tty : Bool) (ld : Option Node) :
    ((get ev a tty ld).exit = 0 →
        ∃ d, ld = some d ∧ (get ev a tty ld).out = (ev d).nodes.map render
          ∧ (get ev a tty ld).out.length = (ev d).nodes.length
          ∧ ∀ i : Nat, (get ev a tty ld).out[i]? = ((ev d).nodes[i]?).map render)
    ∧ ((get ev a tty ld).exit ≠ 0 → (get ev a tty ld).out = []) :=
  Lemmas.get_lines ev a tty ld

/-- A container is printed as JSON, a scalar as text (null as the NUL character). -/
theorem get_json_for_containers (n : Node) :
    (n.isScalar = false → render n = .json n) ∧ (n.isScalar = true → ∃ s, render n = .text s) := by
  cases n with
  | scalar a v => cases v <;> simp [render, Node.isScalar]
  | seq a xs => simp [render, Node.isScalar]
  | map a xs => simp [render, Node.isScalar]
  | set a xs => simp [render, Node.isScalar]

/-- The argument-validation decision list of yaml-get: rejected (status 1, nothing printed) exactly
when there is no input to read, a key file is unreadable, or only one of the two keys is given. -/
theorem get_args_decision (ev : Node → Query) (a : GetArgs) (tty : Bool) (ld : Option Node) :
    (getErrors a tty ≠ [] ↔
        (a.file = none ∧ (a.nostdin = true ∨ tty = true)) ∨ a.priv = .bad ∨ a.pub = .bad
          ∨ a.priv.isSet ≠ a.pub.isSet)
    ∧ (getErrors a tty ≠ [] → get ev a tty ld = ⟨[], 1⟩) :=
  Lemmas.get_args ev a tty ld

/-- File or standard input: the outcome depends on the loaded input only — named file, `-`, and the
implicit standard input of a non-TTY session agree. -/
theorem get_stdin_eq_file (ev : Node → Query) (a : GetArgs) (tty tty' : Bool) (ld : Option Node) :
    get ev { a with file := some .dash } tty ld = get ev { a with file := some .path } tty' ld
    ∧ (a.nostdin = false →
        get ev { a with file := none } false ld = get ev { a with file := some .path } tty' ld) :=
  Lemmas.get_delivery ev a tty tty' ld

/-! ## yaml-diff -/

/-- yaml-diff (parametric in the differ and its entry type) exits 0 exactly when the arguments are
accepted, both inputs load, a document is selected on each side and every entry of the differ's
report is SAME. -/
theorem diff_exit_zero_iff_clean {E : Type} (isSame : E → Bool) (differ : Node → Node → Option (List E))
    (a : DiffArgs) (l r : Option (List Node)) (o : DiffOut E) (h : diff isSame differ a l r = some o) :
    o.exit = 0 ↔
      diffErrors a = [] ∧ ∃ ls rs ld rd rep, l = some ls ∧ r = some rs ∧ pickDoc ls a.lidx = .doc ld
        ∧ pickDoc rs a.ridx = .doc rd ∧ differ ld rd = some rep ∧ ∀ e ∈ rep, isSame e = true :=
  Lemmas.diff_exit_zero_iff isSame differ a l r o h

/-- Otherwise it prints the differ's entries: the printed entries are the report filtered by the
output options, in report order; the status is 0 or 1 and does not depend on what is printed. -/
theorem diff_prints_report {E : Type} (isSame : E → Bool) (differ : Node → Node → Option (List E))
    (a : DiffArgs) (ls rs : List Node) (ld rd : Node) (rep : List E)
    (hv : diffErrors a = []) (hl : pickDoc ls a.lidx = .doc ld) (hr : pickDoc rs a.ridx = .doc rd)
    (hd : differ ld rd = some rep) :
    diff isSame differ a (some ls) (some rs)
      = some ⟨rep.filter (shown isSame a), if rep.all isSame then 0 else 1⟩ :=
  Lemmas.diff_report isSame differ a ls rs ld rd rep hv hl hr hd

/-- `--quiet`, `--same`, `--onlysame` never change the exit status (as long as the combination is
accepted). -/
theorem diff_exit_ignores_output_options {E : Type} (isSame : E → Bool)
    (differ : Node → Node → Option (List E)) (a : DiffArgs) (q s os : Bool) (l r : Option (List Node))
    (hv : diffErrors a = []) (hv' : diffErrors { a with quiet := q, same := s, onlysame := os } = []) :
    (diff isSame differ { a with quiet := q, same := s, onlysame := os } l r).map (·.exit)
      = (diff isSame differ a l r).map (·.exit) :=
  Lemmas.diff_exit_indep isSame differ a q s os l r hv hv'

/-- The argument-validation decision list of yaml-diff. -/
theorem diff_args_decision {E : Type} (isSame : E → Bool) (differ : Node → Node → Option (List E))
    (a : DiffArgs) (l r : Option (List Node)) :
    (diffErrors a ≠ [] ↔
        (a.lhs = .dash ∧ a.rhs = .dash) ∨ (a.quiet = true ∧ (a.same = true ∨ a.onlysame = true))
          ∨ a.config = .bad ∨ a.priv = .bad ∨ a.pub = .bad)
    ∧ (diffErrors a ≠ [] → diff isSame differ a l r = some ⟨[], 1⟩) :=
  Lemmas.diff_args isSame differ a l r

/-! ## yaml-validate -/

/-- yaml-validate exits 0 exactly when every document of every named input loaded and — when the
session's standard input is read implicitly — every document of it as well; otherwise 2. -/
theorem validate_exit_zero_iff_all_load (a : ValArgs) (tty : Bool) (loads : List (List Bool))
    (stdin : List Bool) (hv : valErrors a tty = []) :
    ((validate a tty loads stdin).exit = 0 ↔
        (∀ f ∈ loads, ∀ b ∈ f, b = true)
          ∧ (implicitStdin a.files a.nostdin tty = true → ∀ b ∈ stdin, b = true))
    ∧ ((validate a tty loads stdin).exit = 0 ∨ (validate a tty loads stdin).exit = 2) :=
  Lemmas.validate_exit a tty loads stdin hv

/-- The argument-validation decision list of yaml-validate (and of the input part of yaml-merge and
yaml-paths): rejected with status 1 exactly when nothing can be read or `-` is named twice. -/
theorem validate_args_decision (a : ValArgs) (tty : Bool) (loads : List (List Bool)) (stdin : List Bool) :
    (valErrors a tty ≠ [] ↔
        (a.files = [] ∧ (tty = true ∨ a.nostdin = true)) ∨ manyDash a.files = true)
    ∧ (valErrors a tty ≠ [] → validate a tty loads stdin = ⟨[], 1⟩) :=
  Lemmas.validate_args a tty loads stdin

/-! ## yaml-set -/

/-- yaml-set leaves the document the Edit model predicts: a run with exit status 0 read a non-null
document `d`, passed validation, and wrote (to the file, or to standard output when the document came
from there) exactly `op.apply d` for the edit `op = setOp …` built from the arguments and the gathered
addresses (`Ypv.delete`, `setValue` or `setOrCreate` of `Model/Edit.lean`) — or `d` itself when nothing
was to be applied; `FILE.bak` holds `d` exactly when `--backup` was given.  A run with any other status
(1 or 20) writes nothing and takes no backup. -/
theorem set_file_is_model_result (ev : Node → Gather) (a : SetArgs) (tty : Bool)
    (ld : Option (Option Node)) (segs : Option (List PSeg)) (o : SetOut)
    (h : set ev a tty ld segs = some o) :
    (o.exit = 0 →
        ∃ d, ld = some (some d) ∧ setErrors a tty = [] ∧
          ((a.src = .none ∧ o.written = some (setDest a, d)) ∨
            ∃ op d', setOp a (ev d) segs = some op ∧ op.apply d = .ok d' ∧ o.written = some (setDest a, d'))
          ∧ o.backup = (if a.backup then some d else none))
    ∧ (o.exit ≠ 0 → o.written = none ∧ o.backup = none ∧ (o.exit = 1 ∨ o.exit = 20)) :=
  Lemmas.set_result ev a tty ld segs o h

/-- The argument-validation decision list of yaml-set (status 1, nothing read or written). -/
theorem set_args_decision (ev : Node → Gather) (a : SetArgs) (tty : Bool) (ld : Option (Option Node))
    (segs : Option (List PSeg)) :
    (setErrors a tty ≠ [] ↔
        (a.file = none ∧ (a.nostdin = true ∨ tty = true))
        ∨ (a.src.truthy = false ∧ a.anchor = .unset ∧ a.tag = false)
        ∨ (isStdinSrc a.src = true ∧ inStream a.file a.nostdin tty = true)
        ∨ (a.anchor = .name ∧ a.src ≠ .aliasof ∧ a.src ≠ .mergekey)
        ∨ (a.backup = true ∧ inStream a.file a.nostdin tty = true)
        ∨ (savetoSet a = true ∧ a.saveto = some a.change)
        ∨ a.priv = .bad ∨ a.pub = .bad ∨ a.randomFromShort = true)
    ∧ (setErrors a tty ≠ [] → set ev a tty ld segs = some (.fail 1)) :=
  Lemmas.set_args ev a tty ld segs

/-- A delete through the tool is the Edit model's delete of the gathered addresses. -/
example (g : Gather) (segs : Option (List PSeg)) (a : SetArgs) (h : a.src = .delete) :
    setOp a g segs = some (.delete g.addrs) := by
  simp [setOp, h]

/-! ## yaml-paths -/

/-- yaml-paths prints exactly the search results.  For every document `d`, the hits printed are
(sound) results `find d e` of an accepted `--search` expression `e`, each tagged with that expression;
(no path twice); (excepted) no path that an accepted `--except` expression finds; (complete) every
result of an accepted search expression that no accepted except expression finds is printed; and when
every expression is accepted the document leaves the exit state alone. -/
theorem paths_lines_are_found (valid : Str → Bool) (find : Node → Str → List Str) (a : PathsArgs) (d : Node) :
    (∀ h ∈ (pathsDoc valid find a d).1, h.1 ∈ a.search ∧ valid h.1 = true ∧ h.2 ∈ find d h.1)
    ∧ ((pathsDoc valid find a d).1.map (·.2)).Nodup
    ∧ (∀ x ∈ a.exc, valid x = true → ∀ p ∈ find d x, p ∉ (pathsDoc valid find a d).1.map (·.2))
    ∧ (∀ e ∈ a.search, valid e = true → ∀ p ∈ find d e,
        (∀ x ∈ a.exc, valid x = true → p ∉ find d x) → p ∈ (pathsDoc valid find a d).1.map (·.2))
    ∧ ((∀ e ∈ a.search, valid e = true) → (∀ e ∈ a.exc, valid e = true) → (pathsDoc valid find a d).2 = none) :=
  Lemmas.pathsDoc_spec valid find a d

/-- …one input at a time, one document at a time, in stream order: the lines of an input whose
documents all loaded are the per-document hits tagged with the input's position and the document's
index (`Lemmas.fileLines`). -/
theorem paths_file_lines (valid : Str → Bool) (find : Node → Str → List Str) (a : PathsArgs) (fi i : Nat)
    (ds : List Node) (st : Nat) :
    (pathsFile valid find a fi i (ds.map some) st).1 = Lemmas.fileLines valid find a fi i ds :=
  Lemmas.pathsFile_lines valid find a fi i ds st

/-! ## yaml-merge -/

/-- yaml-merge prints or writes the model merge of its inputs.  With accepted arguments, whenever the
streams the tool reads (the named files in order, then the implicit standard input) all load and the
first holds a document, the outcome is that of `MultiDoc.mainRun` — the multi-document model of C18,
for ANY pairwise merge `m` (C05's `mergeWith cfg` in the correspondence): its documents are written,
to OUTPUT/OVERWRITE or standard output, exactly when its state is 0, and the state is the exit
status; a crash or uncaught exception of the model is one of the tool. -/
theorem merge_output_is_model_result {ε : Type} (m : Node → Node → Except ε Node) (cls : ε → MultiDoc.Cls)
    (a : MergeArgs) (tty : Bool) (loads : List (Option (List Node))) (stdin : Option (List Node))
    (f0 : List Node) (rest : List (List Node))
    (hv : mergeErrors a tty = []) (hin : mergeInputs a tty loads stdin = (f0 :: rest).map some) (h0 : f0 ≠ []) :
    merge m cls a tty loads stdin =
      match MultiDoc.mainRun m cls a.mode (f0 :: rest) with
      | none => none
      | some (.error e) => some (.error e)
      | some (.ok o) =>
        if o.state = 0 then some (.ok ⟨0, some o.docs, a.out != .stdout, a.backup⟩)
        else some (.ok ⟨o.state, none, false, false⟩) :=
  Lemmas.merge_of_streams m cls a tty loads stdin f0 rest hv hin h0

/-- File or standard input: two accepted invocations with the same mode and destination that read the
same streams in the same order end alike — whether a stream was named, given as `-`, or was the
implicit standard input. -/
theorem merge_stdin_eq_file {ε : Type} (m : Node → Node → Except ε Node) (cls : ε → MultiDoc.Cls)
    (a a' : MergeArgs) (tty tty' : Bool) (loads loads' : List (Option (List Node)))
    (stdin stdin' : Option (List Node))
    (hv : mergeErrors a tty = []) (hv' : mergeErrors a' tty' = [])
    (hm : a.mode = a'.mode) (ho : a.out = a'.out) (hb : a.backup = a'.backup)
    (hin : mergeInputs a tty loads stdin = mergeInputs a' tty' loads' stdin') :
    merge m cls a tty loads stdin = merge m cls a' tty' loads' stdin' :=
  Lemmas.merge_delivery m cls a a' tty tty' loads loads' stdin stdin' hv hv' hm ho hb hin

/-- The argument-validation decision list of yaml-merge (status 1, nothing read or written). -/
theorem merge_args_decision {ε : Type} (m : Node → Node → Except ε Node) (cls : ε → MultiDoc.Cls)
    (a : MergeArgs) (tty : Bool) (loads : List (Option (List Node))) (stdin : Option (List Node)) :
    (mergeErrors a tty ≠ [] ↔
        (a.files = [] ∧ (tty = true ∨ a.nostdin = true)) ∨ manyDash a.files = true ∨ a.config = .bad
          ∨ a.out = .output true ∨ (a.backup = true ∧ a.out.isOverwrite = false))
    ∧ (mergeErrors a tty ≠ [] → merge m cls a tty loads stdin = some (.ok ⟨1, none, false, false⟩)) :=
  Lemmas.merge_args m cls a tty loads stdin

/-! ## Witnesses: the hypotheses are met by concrete, non-trivial values -/

/-- `yaml-get -p q file` with two matches, the second a container. -/
example :
    get (fun _ => ⟨[.scalar none (.int 1), .seq none [.scalar none (.str "a".toList)]], none⟩)
        ⟨some .path, false, .unset, .unset⟩ true (some (.map none []))
      = ⟨[.text "1".toList, .json (.seq none [.scalar none (.str "a".toList)])], 0⟩ := by decide +kernel

/-- a null document yields nothing: exit status 1 (`fixes/C16-3.patch`; the pinned code exits 0) -/
example : (get (fun _ => ⟨[], none⟩) ⟨some .path, false, .unset, .unset⟩ true (some (.scalar none .null))).exit = 1 := by
  decide +kernel

/-- only one EYAML key: rejected -/
example : (get (fun _ => ⟨[], none⟩) ⟨some .path, false, .good, .unset⟩ true (some (.scalar none .null))) = ⟨[], 1⟩ := by
  decide +kernel

/-- yaml-validate: second file's second document fails -> 2, and the implicit standard input is not read -/
example : validate ⟨[.path, .path], false, false, false⟩ false [[true], [true, false]] [true]
    = ⟨[(1, 1, false)], 2⟩ := by decide +kernel

/-- yaml-diff --onlysame over a report with one SAME and one changed entry: prints the SAME one, exits 1 -/
example : (diff (E := Nat × Bool) (·.2) (fun _ _ => some [(0, true), (1, false)])
      ⟨.path, .dash, false, false, true, .unset, .unset, .unset, none, none⟩
      (some [.scalar none (.int 1)]) (some [.scalar none (.int 2)])).map (fun o => (o.printed, o.exit))
    = some ([(0, true)], 1) := by decide +kernel

/-- yaml-merge reading its only stream from the implicit standard input (`fixes/C16-1.patch`; the pinned
code raises IndexError here): the stream is condensed like a named file. -/
example : (merge (ε := Unit) (fun l _ => .ok l) (fun _ => .other)
      ⟨[], false, .unset, .stdout, false, .condenseAll⟩ false [] (some [.scalar none (.int 1), .scalar none (.int 2)]))
    = some (.ok ⟨0, some [.scalar none (.int 1)], false, false⟩) := by decide +kernel

end Ypv.Cli
