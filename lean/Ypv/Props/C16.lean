/-! C16 — property theorems (stub; no obligations yet) -/
