import Ypv.Lemmas.MergeAt
import Ypv.Props.C09
/-!
# C11 — a merge aimed at a path changes only what lies under that path

Theorems about `Ypv.MergeAt.mergeAt` (`Model/MergeAt.lean`: `Merger.merge_with` with `--mergeat`,
as the code stands after fixes C11-1 … C11-3), for every configuration, left document, right
document and query outcome (`Plan`).  `Apart t b`: neither address lies under the other.
-/
namespace Ypv.MergeAt
open Ypv Ypv.Merge

/-- FRAME.  A merge aimed at existing targets leaves every address that is apart from all of them
exactly as it was — the same node, or still nothing.  No hypothesis on the targets (any order,
repeats, nesting). -/
theorem mergeat_frame (cfg : Config) (l r d' : Node) (targets : List Addr)
    (h : mergeAt cfg l (.existing targets) r = .ok d') :
    ∀ b, (∀ t ∈ targets, Apart t b) → d'.get? b = l.get? b := by
  intro b hb
  unfold mergeAt at h
  cases hr : isNull r with
  | true => simp only [hr, if_true] at h; cases h; rfl
  | false =>
    simp only [hr, Bool.false_eq_true, if_false] at h
    cases hl : isNull l with
    | true => simp [hl] at h
    | false =>
      simp only [hl, Bool.false_eq_true, if_false] at h
      cases he : targets.isEmpty with
      | true => simp [he] at h
      | false =>
        simp only [he, Bool.false_eq_true, if_false] at h
        exact mergeTargets_frame _ r targets l d' h b hb

/-- FRAME for a straight-line merge path (followed, and created where missing): every node of the
left document at an address apart from the relayed one is still there, unchanged (padding elements
and the new key are additions, not changes). -/
theorem mergeat_frame_created (cfg : Config) (l r d' : Node) (segs : List PSeg)
    (hl : isNull l = false) (hr : isNull r = false)
    (h : mergeAt cfg l (.create segs) r = .ok d') :
    ∃ leaf c, wrapLeaf r = .ok leaf ∧ createPathN leaf l segs = .ok c ∧
      ∀ b x, l.get? b = some x → Apart c.addr b → d'.get? b = some x := by
  unfold mergeAt at h
  simp only [hr, hl, Bool.false_eq_true, if_false] at h
  unfold mergeCreate at h
  cases hw : wrapLeaf r with
  | error e => simp [hw] at h
  | ok leaf =>
    simp only [hw] at h
    cases hc : createPathN leaf l segs with
    | error e => simp [hc] at h
    | ok c =>
      simp only [hc] at h
      refine ⟨leaf, c, rfl, hc, ?_⟩
      intro b x hb hap
      have hcf := createPathN_frame leaf segs l c hc b x hb hap
      split at h
      · cases h; exact hcf
      · obtain ⟨_, old, m, _, _, hd'⟩ := mergeOne_ok h
        rw [hd', get?_setAt_apart m c.addr c.doc b hap]
        exact hcf

/-- TARGETS.  With the matched addresses pairwise apart (what a wildcard / search over siblings
yields), every target ends up holding what the per-target dispatch of `merge_with` makes of the node
that stood there in the LEFT document and the right-hand document. -/
theorem mergeat_targets_merged (cfg : Config) (l r d' : Node) (targets : List Addr)
    (hp : targets.Pairwise Apart) (hr : isNull r = false)
    (h : mergeAt cfg l (.existing targets) r = .ok d') :
    ∀ t ∈ targets, ∃ old m, l.get? t = some old ∧
      mergeTarget (prepare cfg r) t.isEmpty old r = .ok m ∧ d'.get? t = some m := by
  unfold mergeAt at h
  simp only [hr, Bool.false_eq_true, if_false] at h
  cases hl : isNull l with
  | true => simp [hl] at h
  | false =>
    simp only [hl, Bool.false_eq_true, if_false] at h
    cases he : targets.isEmpty with
    | true => simp [he] at h
    | false =>
      simp only [he, Bool.false_eq_true, if_false] at h
      exact mergeTargets_merged _ r targets l d' hp h

/-- The per-target dispatch IS the policy-defined (C05) merge of the target's old content with the
right-hand document.  PARTIAL: outside the input class of the known finding `scalar-rhs-retyped`
(`Retyped`: a Scalar target below the root is overwritten through `set_value`, which stores the text
`"5"` as the integer 5).
FULL STATEMENT (false on the pinned and on the fixed tree, witness below):
`mergeTarget (prepare cfg r) isRoot l r = c05 cfg l r` for all non-null `l`, `r`. -/
theorem mergeat_target_is_c05_merge_partial (cfg : Config) (isRoot : Bool) (l r : Node)
    (hl : isNull l = false) (hr : isNull r = false) (hs : Retyped isRoot l r = false) :
    mergeTarget (prepare cfg r) isRoot l r = c05 cfg l r :=
  mergeTarget_eq_c05 cfg isRoot l r hl hr hs

/-- **The per-target dispatch, in full (no exclusion).**  For all non-null `l`, `r`: the value that
replaces the target is the C05 root merge of the target's old content with the right-hand document —
except when a Scalar lands on a Scalar target that is not the document root, where it is what
`set_value` stores: the target's own anchor kept, the value re-made in the DEFAULT format
(`setScalar la v = (newScalar la.isSome v .default).map (.scalar la ·)`). -/
theorem mergeat_target_is_c05_merge (cfg : Config) (isRoot : Bool) (l r : Node)
    (hl : isNull l = false) (hr : isNull r = false) :
    mergeTarget (prepare cfg r) isRoot l r =
      match l, r with
      | .scalar la _, .scalar _ v => if isRoot then c05 cfg l r else setScalar la v
      | _, _ => c05 cfg l r := by
  cases l with
  | scalar la lv =>
    cases r with
    | scalar ra v =>
      cases isRoot with
      | true => exact mergeTarget_eq_c05 cfg true _ _ hl hr (by simp [Retyped])
      | false => simp [mergeTarget]
    | seq ra ri => exact mergeTarget_eq_c05 cfg isRoot _ _ hl hr rfl
    | map ra re => exact mergeTarget_eq_c05 cfg isRoot _ _ hl hr rfl
    | set ra rm => exact mergeTarget_eq_c05 cfg isRoot _ _ hl hr rfl
  | seq la li => exact mergeTarget_eq_c05 cfg isRoot _ _ hl hr (by cases r <;> rfl)
  | map la le => exact mergeTarget_eq_c05 cfg isRoot _ _ hl hr (by cases r <;> rfl)
  | set la lm => exact mergeTarget_eq_c05 cfg isRoot _ _ hl hr (by cases r <;> rfl)

/-- **Exactly which values `set_value` does not store as they are** (the DEFAULT format of
`make_new_node`): Booleans, integers and floats are kept; a text `s` is kept iff it does not read as
a Boolean, an integer or a float (`eTypedValue s = .str`, or `= .none` — the text `None` — on an
unanchored target); every other text is re-typed (`true` → Boolean, `5` → int, `1.5` → float), and
texts outside the value model are refused. -/
theorem set_value_keeps_iff (anchored : Bool) (v : Scalar) :
    newScalar anchored v .default = .ok v ↔
      match v with
      | .null => anchored = false
      | .opaque _ => False
      | .str s => eTypedValue s = .str ∨ (eTypedValue s = .none ∧ anchored = false)
      | _ => True := by
  cases v with
  | null => cases anchored <;> simp [newScalar]
  | bool b => simp [newScalar]
  | int i => simp [newScalar]
  | float m e => simp [newScalar]
  | «opaque» o => simp [newScalar]
  | str s =>
    simp only [newScalar]
    cases ht : eTypedValue s with
    | bool b =>
      simp only [fmtBoolean]
      cases pyStrVal (.str s) with
      | none => simp
      | some t => simp only; split <;> simp
    | int i => simp [fmtInt, ht]
    | float m e => simp [fmtFloat, ht]
    | none => cases anchored <;> simp
    | str => simp
    | unmodelled => simp

/-- **The finding class, spelled out**: a Scalar right-hand document `v` aimed at a Scalar target below
the root comes out different from the C05 merge exactly when the target carries another anchor than the
right-hand Scalar or `v` is a text that reads as a Boolean / integer / float (or is refused). -/
theorem retyped_iff (la ra : Option Str) (lv v : Scalar) :
    Retyped false (.scalar la lv) (.scalar ra v) = true ↔
      la ≠ ra ∨ ¬ (match v with
        | .null => la.isSome = false
        | .opaque _ => False
        | .str s => eTypedValue s = .str ∨ (eTypedValue s = .none ∧ la.isSome = false)
        | _ => True) := by
  rw [← set_value_keeps_iff la.isSome v]
  simp only [Retyped, Bool.not_false, Bool.true_and, Bool.not_eq_true', Bool.and_eq_false_iff,
    decide_eq_false_iff_not, ne_eq]

/-- C11 for existing targets, in one statement: targets pairwise apart, none of them null or in
the finding class ⇒ the result meets `Meets` (every target holds the C05 merge of its old content,
everything apart from the targets is as it was).  PARTIAL in the same sense as
`mergeat_target_is_c05_merge_partial`. -/
theorem mergeat_meets_spec_partial (cfg : Config) (l r d' : Node) (targets : List Addr)
    (hp : targets.Pairwise Apart) (hr : isNull r = false)
    (hn : ∀ t ∈ targets, ∀ old, l.get? t = some old →
      isNull old = false ∧ Retyped t.isEmpty old r = false)
    (h : mergeAt cfg l (.existing targets) r = .ok d') :
    Meets cfg l targets r d' := by
  refine ⟨?_, mergeat_frame cfg l r d' targets h⟩
  intro t ht
  obtain ⟨old, m, hold, hm, hres⟩ := mergeat_targets_merged cfg l r d' targets hp hr h t ht
  obtain ⟨hno, hre⟩ := hn t ht old hold
  exact ⟨old, m, hold, by rw [← mergeTarget_eq_c05 cfg _ old r hno hr hre]; exact hm, hres⟩

/-- MISSING PATH CREATED.  When the straight-line merge path does not exist yet (`fresh`) and the
right-hand document is a container, the merge succeeds, the node at the relayed address IS the
right-hand document, and every node of the left document apart from that address is unchanged.
`start` is the left document, or for an empty (null) left document the empty container
`build_next_node` makes for the first segment (fix C11-2). -/
theorem mergeat_missing_created (cfg : Config) (l r : Node) (segs : List PSeg) (c : CreatedN)
    (hr : isNull r = false) (hs : r.isScalar = false)
    (hne : isNull l = true → segs ≠ [])
    (hc : createPathN r (if isNull l then buildNextN segs r else l) segs = .ok c)
    (hf : c.fresh = true) :
    mergeAt cfg l (.create segs) r = .ok c.doc ∧ c.doc.get? c.addr = some r ∧
      ∀ b x, (if isNull l then buildNextN segs r else l).get? b = some x → Apart c.addr b →
        c.doc.get? b = some x := by
  have hw : wrapLeaf r = .ok r := by
    cases r with
    | scalar a v => simp [Node.isScalar] at hs
    | seq a i => rfl
    | map a e => rfl
    | set a m => rfl
  refine ⟨?_, createPathN_fresh_holds r segs _ c hc hf, createPathN_frame r segs _ c hc⟩
  unfold mergeAt
  simp only [hr, Bool.false_eq_true, if_false]
  cases hl : isNull l with
  | true =>
    have hse : segs.isEmpty = false := by
      cases segs with
      | nil => exact absurd rfl (hne hl)
      | cons s t => rfl
    simp only [hl, if_true] at hc ⊢
    simp only [hw, hse, Bool.false_and, Bool.false_eq_true, if_false]
    unfold mergeCreate
    simp [hw, hc, hf, hs]
  | false =>
    simp only [hl, Bool.false_eq_true, if_false] at hc ⊢
    unfold mergeCreate
    simp [hw, hc, hf, hs]

/-- An existing straight-line path is an ordinary single target: the optional query changes
nothing and the merge is the one aimed at the relayed address. -/
theorem mergeat_existing_path_is_target (cfg : Config) (l r leaf : Node) (segs : List PSeg) (c : CreatedN)
    (hl : isNull l = false) (hw : wrapLeaf r = .ok leaf)
    (hc : createPathN leaf l segs = .ok c) (hf : c.fresh = false) :
    mergeAt cfg l (.create segs) r = mergeAt cfg l (.existing [c.addr]) r := by
  obtain ⟨hd, _⟩ := createPathN_not_fresh leaf segs l c hc hf
  unfold mergeAt
  cases hr : isNull r with
  | true => simp
  | false =>
    simp only [Bool.false_eq_true, if_false, hl]
    unfold mergeCreate
    simp only [hw, hc, hf, Bool.false_and, Bool.false_eq_true, if_false, hd, List.isEmpty_cons,
      mergeTargets]
    cases mergeOne (prepare cfg r) r l c.addr <;> rfl

/-- UNMATCHED.  A merge path that matches nothing and is not creatable (the optional query yields
no node) is a merge error — no document comes out, so nothing can be written. -/
theorem mergeat_unmatched_is_error (cfg : Config) (l r : Node)
    (hl : isNull l = false) (hr : isNull r = false) :
    mergeAt cfg l (.existing []) r = .error .merge := by
  unfold mergeAt
  simp [hl, hr]

/-- NOT CREATABLE.  When the straight-line path cannot be followed or created (a key below a
Scalar, a key in an Array, …) the merge fails with exactly the optional query's error — again no
document comes out. -/
theorem mergeat_uncreatable_is_error (cfg : Config) (l r leaf : Node) (segs : List PSeg) (e : Err)
    (hl : isNull l = false) (hr : isNull r = false) (hw : wrapLeaf r = .ok leaf)
    (hc : createPathN leaf l segs = .error e) :
    mergeAt cfg l (.create segs) r = .error (ofE e) := by
  unfold mergeAt
  simp only [hl, hr, Bool.false_eq_true, if_false]
  unfold mergeCreate
  simp [hw, hc]

/-- An empty right-hand document changes nothing, whatever the merge path. -/
theorem mergeat_null_rhs (cfg : Config) (l r : Node) (plan : Plan) (hr : isNull r = true) :
    mergeAt cfg l plan r = .ok l := by
  unfold mergeAt; simp [hr]

/-- SPINE.  Every position that lies under no target keeps its shape: the containers above a
target keep their kind, anchor and key list (order included) / length — a merge aimed below them
adds, removes and reorders nothing at their level. -/
theorem mergeat_spine_kept (cfg : Config) (l r d' : Node) (targets : List Addr)
    (h : mergeAt cfg l (.existing targets) r = .ok d') :
    ∀ p, (∀ t ∈ targets, ¬ t <+: p) → (d'.get? p).map shape = (l.get? p).map shape := by
  intro p hp
  unfold mergeAt at h
  cases hr : isNull r with
  | true => simp only [hr, if_true] at h; cases h; rfl
  | false =>
    simp only [hr, Bool.false_eq_true, if_false] at h
    cases hl : isNull l with
    | true => simp [hl] at h
    | false =>
      simp only [hl, Bool.false_eq_true, if_false] at h
      cases he : targets.isEmpty with
      | true => simp [he] at h
      | false =>
        simp only [he, Bool.false_eq_true, if_false] at h
        exact mergeTargets_shape _ r targets l d' h p hp

/-- MISSING PATH CREATED, Scalar right-hand document: the node at the relayed address is the
Scalar as `set_value` stores it (`newScalar … DEFAULT`: the finding class `scalar-rhs-retyped`
re-types text here too), every pre-existing node apart from that address is unchanged. -/
theorem mergeat_missing_created_scalar (cfg : Config) (l d' : Node) (ra : Option Str) (v : Scalar)
    (segs : List PSeg) (leaf : Node) (c : CreatedN)
    (hl : isNull l = false) (hr : isNull (.scalar ra v) = false)
    (hw : wrapLeaf (.scalar ra v) = .ok leaf) (hc : createPathN leaf l segs = .ok c)
    (hf : c.fresh = true)
    (h : mergeAt cfg l (.create segs) (.scalar ra v) = .ok d') :
    ∃ la s, newScalar la.isSome v .default = .ok s ∧ d'.get? c.addr = some (.scalar la s) := by
  unfold mergeAt at h
  simp only [hr, hl, Bool.false_eq_true, if_false] at h
  unfold mergeCreate at h
  simp only [hw, hc, hf, Node.isScalar, Bool.not_true, Bool.and_false, Bool.false_eq_true, if_false] at h
  obtain ⟨hm, old, m, hold, hmt, hd'⟩ := mergeOne_ok h
  have hleaf := createPathN_fresh_holds leaf segs l c hc hf
  rw [hleaf] at hold
  cases hold
  have hne := createPathN_fresh_addr_ne_nil leaf segs l c hc hf
  have hemp : c.addr.isEmpty = false := by
    cases hca : c.addr with
    | nil => exact absurd hca hne
    | cons x y => rfl
  have hleafs : ∃ la lv, leaf = Node.scalar la lv := by
    simp only [wrapLeaf] at hw
    cases hwt : wrapType v with
    | error e => simp [hwt, Except.map] at hw
    | ok v' => simp only [hwt, Except.map] at hw; cases hw; exact ⟨ra, v', rfl⟩
  obtain ⟨la, lv, hleq⟩ := hleafs
  subst hleq
  simp only [mergeTarget, hemp, Bool.false_eq_true, if_false, setScalar] at hmt
  cases hns : newScalar la.isSome v .default with
  | error e => simp [hns] at hmt
  | ok s =>
    simp only [hns] at hmt
    cases hmt
    exact ⟨la, s, hns, by rw [hd']; exact get?_setAt_self _ c.addr c.doc _ hm hleaf⟩

/-- REUSE OF THE C09 CREATION MODEL.  On a Scalar leaf the path creation used here is
`Node.createPath` of `Model/Edit.lean` — the function the C09 theorems (`create_exact_partial_seq`,
`create_exact_partial_map`, `fill_resolves`, `create_nothing_when_present`) are about. -/
theorem mergeat_creation_is_c09 (s : Scalar) (segs : List PSeg) (n : Node) :
    (createPathN (.scalar none s) n segs).map CreatedN.toCreated = n.createPath s segs :=
  createPathN_scalar s segs n

/-- **The exact set of new addresses after creation** (Scalar right-hand document, straight path):
the creation used by `--mergeat` is C09's, so C09's complete `create_exact` applies — the path was
present (nothing changed), or a `null` on the way was relayed (nothing changed), or the prefix resolves
to a node `n` at `q`, the next segment is missing there, and the new document is the old one with
EXACTLY the node at `q` replaced by `createHere n seg rest` (new addresses: those below
`q ++ [createdRef n seg]`, nothing else). -/
theorem mergeat_creation_exact (s : Scalar) (l : Node) (segs : List PSeg) (c : CreatedN)
    (hc : createPathN (.scalar none s) l segs = .ok c) :
    CreateOutcome s l segs c.toCreated := by
  apply Ypv.C09.create_exact s l segs
  rw [← mergeat_creation_is_c09, hc]
  rfl

/-- RULES RE-BASED.  A `[rules]` / `[keys]` path written against the merged document below the
merge path (`mergePath ++ p`, plain key names) addresses the node `p` of the right-hand document. -/
theorem mergeat_rules_rebased {α : Type} (m p : List Str) (x : α) (hm : m ≠ [])
    (hp : ∀ k ∈ p, k ≠ [] ∧ '/' ∉ k) :
    rebaseRules m [(m ++ p, x)] = [(keysToAddr p, x)] := by
  simp [rebaseRules, stripPrefix_append m p hm hp]

/-! ## Witnesses -/

private def i (n : Int) : Node := .scalar none (.int n)
private def docAB : Node := .map none [(.str "a".toList, .map none [(.str "b".toList, .seq none [i 1, i 2])])]
private def pathAB : List PSeg := [.key "a".toList, .key "b".toList]

/-- The section-6 witness, repaired by fix C11-1: `a: {b: [1,2]}` ⊕ `[3]` at `a.b` with
arrays=right gives `a: {b: [3]}` (the pinned code leaves the document unchanged). -/
example : mergeAt { arrayCli := some .right } docAB (.create pathAB) (.seq none [i 3]) =
    .ok (.map none [(.str "a".toList, .map none [(.str "b".toList, .seq none [i 3])])]) := by decide +kernel

/-- Two targets under a wildcard (`a.*`), hashes=right: both are replaced. -/
example : mergeAt { hashCli := some .right }
    (.map none [(.str "a".toList, .seq none [.map none [(.str "k".toList, i 1)], .map none [(.str "k".toList, i 2)]])])
    (.existing [[.key (.str "a".toList), .idx 0], [.key (.str "a".toList), .idx 1]])
    (.map none [(.str "x".toList, i 1)]) =
    .ok (.map none [(.str "a".toList, .seq none [.map none [(.str "x".toList, i 1)], .map none [(.str "x".toList, i 1)]])]) := by
  decide +kernel

/-- A missing path is created to hold the right-hand document; an empty left document too (C11-2). -/
example : mergeAt {} (.map none [(.str "a".toList, i 1)]) (.create [.key "b".toList, .key "c".toList])
    (.map none [(.str "x".toList, i 1)]) =
    .ok (.map none [(.str "a".toList, i 1),
      (.str "b".toList, .map none [(.str "c".toList, .map none [(.str "x".toList, i 1)])])]) := by decide +kernel
example : mergeAt {} (.scalar none .null) (.create pathAB) (.map none [(.str "x".toList, i 1)]) =
    .ok (.map none [(.str "a".toList, .map none [(.str "b".toList, .map none [(.str "x".toList, i 1)])])]) := by
  decide +kernel

/-- Not creatable: a key below a Scalar. -/
example : mergeAt {} (.map none [(.str "a".toList, i 1)]) (.create [.key "a".toList, .key "c".toList])
    (.map none [(.str "x".toList, i 1)]) = .error (.ypath .generic) := by decide +kernel

/-- The known finding `scalar-rhs-retyped` (why `mergeat_target_is_c05_merge_partial` is partial):
`{a: 1}` ⊕ `"5"` at `a` stores the integer 5, the C05 merge of `1` and `"5"` is the text. -/
example : mergeAt {} (.map none [(.str "a".toList, i 1)]) (.create [.key "a".toList]) (.scalar none (.str "5".toList)) =
    .ok (.map none [(.str "a".toList, i 5)]) := by decide +kernel
example : c05 {} (i 1) (.scalar none (.str "5".toList)) = .ok (.scalar none (.str "5".toList)) := by decide +kernel
example : Retyped false (i 1) (.scalar none (.str "5".toList)) = true := by decide +kernel

/-- `strip_path_prefix` compares texts: a rule for `/a/bc/x` is (wrongly) re-based on the merge path
`/a/b` to the single key `c/x` (mirrored; observation in `notes/C11.md`). -/
example : stripPrefix ["a".toList, "bc".toList, "x".toList] ["a".toList, "b".toList] = ["c/x".toList] := by
  decide +kernel

/-- The hypotheses of `mergeat_meets_spec_partial` are met by a non-trivial case. -/
example : Retyped false (.seq none [i 1]) (.seq none [i 3]) = false := by decide +kernel

/-- `set_value_keeps_iff` on concrete texts: `5`, `true`, `1.5` are re-typed, `abc` is kept -/
example : newScalar false (.str "5".toList) .default = .ok (.int 5) ∧
    newScalar false (.str "true".toList) .default = .ok (.bool true) ∧
    eTypedValue "abc".toList = .str ∧ newScalar false (.str "abc".toList) .default = .ok (.str "abc".toList) := by
  decide +kernel
/-- `mergeat_creation_exact` is not vacuous: `a: [1]` ⊕ `9` at `a[2]` creates below `a` -/
example : (createPathN (.scalar none (.int 9)) (.map none [(.str ['a'], .seq none [.scalar none (.int 1)])])
    [.key ['a'], .index 2]).map (fun c => (c.doc, c.addr)) =
    .ok (.map none [(.str ['a'], .seq none [.scalar none (.int 1), .scalar none (.int 9), .scalar none (.int 9)])],
         [.key (.str ['a']), .idx 2]) := by decide +kernel

end Ypv.MergeAt
