/-! C11 — property theorems (stub; no obligations yet) -/
