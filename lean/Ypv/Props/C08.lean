/-! C08 — property theorems (stub; no obligations yet) -/
