import Ypv.Lemmas.PathSim
import Ypv.Model.Render
/-!
# C08 — path text and parsed segments round-trip in both notations

`write` (Spec/Write.lean) is the independent writer, `wfSegs` the expressible segment lists,
`parseWith fslash true` the model of `YAMLPath(text).escaped` with the separator given,
`parse true` the same with the separator inferred from the text.
-/
namespace Ypv.C08
open Ypv

/-- **parse_write.**  Every well-formed list of segments of ALL kinds — KEY, INDEX, slice, ANCHOR,
MATCH_ALL, TRAVERSE, SEARCH (nine operators, inversion, attribute and term text, the
regular-expression delimiter chosen by the writer), KEYWORD_SEARCH, COLLECTOR (all operators, any
expression, empty and `&…` included) — of any length, written in dot (`fslash = false`) or forward-slash
notation, parses back to exactly that list.  (Unconditional since /repo 5554362, the repair of
finding C08-6; before it `/()&(b)` lost the `&`.) -/
theorem parse_write (fslash : Bool) (segs : List Seg) (hwf : wfSegs segs = true) :
    parseWith fslash true (write fslash segs) = .ok segs := by
  simpa using Sim.parseWith_write fslash true segs hwf

/-- **The `strip = false` twin (`YAMLPath.unescaped`).**  The unescaped segments of a written
well-formed list are the same segments with their texts as written (`keepEsc`: escapes kept). -/
theorem parse_write_unescaped (fslash : Bool) (segs : List Seg) (hwf : wfSegs segs = true) :
    parseWith fslash false (write fslash segs) =
      .ok (segs.map (keepEsc (if fslash then '/' else '.'))) := by
  simpa using Sim.parseWith_write fslash false segs hwf

theorem normOriginal_idem (t : Str) : normOriginal (normOriginal t) = normOriginal t := by
  unfold normOriginal
  split <;> simp_all

/-- with the separator inferred from the text the same holds, except for dot-notation texts that
start with `/` (which are forward-slash paths by the notation's own definition) -/
theorem parse_inferred (fslash : Bool) (segs : List Seg) (out : Except PErr (List Seg))
    (hx : fslash = true ∨ dotExpressible segs = true)
    (h : parseWith fslash true (write fslash segs) = out) :
    parse true (write fslash segs) = out := by
  unfold parse
  have : inferFslash (write fslash segs) = fslash := by
    unfold inferFslash normOriginal
    cases fslash with
    | true =>
      have h0 : isPyWs '/' = false := by decide
      simp [write, h0]
    | false =>
      rcases hx with hx | hx
      · cases hx
      · simp only [dotExpressible, ne_eq, decide_eq_true_eq] at hx
        split
        · simp
        · simpa using hx
  rw [this]; exact h

/-- **parse_write with the separator inferred from the text** (`YAMLPath(text).escaped`): the same,
except for dot-notation texts that start with `/` — forward-slash paths by the notation's own
definition (`dotExpressible`). -/
theorem parse_write_inferred (fslash : Bool) (segs : List Seg) (hwf : wfSegs segs = true)
    (hx : fslash = true ∨ dotExpressible segs = true) :
    parse true (write fslash segs) = .ok segs :=
  parse_inferred fslash segs _ hx (parse_write fslash segs hwf)

/-- stage 1: KEY, INDEX, slice, ANCHOR, MATCH_ALL, TRAVERSE -/
def isBasic : Seg → Bool
  | (.key, .str _) | (.matchAll, .none) | (.traverse, .none) | (.index, .int _)
  | (.index, .str _) | (.anchor, .str _) => true
  | _ => false

/-- the stage-1 instances (kept for the record; corollaries of `parse_write`) -/
theorem parse_write_basic (fslash : Bool) (segs : List Seg)
    (_hk : ∀ s ∈ segs, isBasic s = true) (hwf : wfSegs segs = true) :
    parseWith fslash true (write fslash segs) = .ok segs := parse_write fslash segs hwf

theorem parse_write_basic_inferred (fslash : Bool) (segs : List Seg)
    (_hk : ∀ s ∈ segs, isBasic s = true) (hwf : wfSegs segs = true)
    (hx : fslash = true ∨ dotExpressible segs = true) :
    parse true (write fslash segs) = .ok segs := parse_write_inferred fslash segs hwf hx

/-- **eq_iff_segments.**  The model of `YAMLPath.__eq__` (after `fixes/C08-3.patch`) answers
`true` exactly when both texts parse and their segment lists are the same. -/
theorem eq_iff_segments (a b : Str) :
    eqModel a b = .ok true ↔ ∃ s, parse true a = .ok s ∧ parse true b = .ok s := by
  have hp : ∀ t, parse true (normOriginal t) = parse true t := by
    intro t
    simp only [parse, parseWith, inferFslash, normOriginal_idem]
    rfl
  unfold eqModel
  rw [hp a, hp b]
  cases ha : parse true a <;> cases hb : parse true b <;> simp
  exact eq_comm

/-- …and on written paths: two well-formed lists (all kinds), each written in either notation,
compare equal iff they are the same list. -/
theorem eq_written (f1 f2 : Bool) (s1 s2 : List Seg)
    (w1 : wfSegs s1 = true) (w2 : wfSegs s2 = true)
    (x1 : f1 = true ∨ dotExpressible s1 = true) (x2 : f2 = true ∨ dotExpressible s2 = true) :
    eqModel (write f1 s1) (write f2 s2) = .ok true ↔ s1 = s2 := by
  rw [eq_iff_segments, parse_write_inferred f1 s1 w1 x1, parse_write_inferred f2 s2 w2 x2]
  constructor
  · rintro ⟨s, ha, hb⟩
    cases ha; cases hb; rfl
  · rintro rfl; exact ⟨s1, rfl, rfl⟩

/-- **render_fixed_point.**  Take a well-formed list `segs` (all kinds), write it in notation `f`,
let `u` be what `YAMLPath(text).unescaped` holds (`parse_write_unescaped`), and let `S = render f' u`
be the library's canonical string in notation `f'` (`__str__`, or the string after
`separator = …`).  Then
* `S` re-parses (`escaped`) to exactly `segs`, in either notation `f'`;
* `S` is a fixed point: rendering the unescaped segments of `S` in the same notation gives `S` again. -/
theorem render_fixed_point (f f' : Bool) (segs : List Seg) (hwf : wfSegs segs = true) :
    ∃ u, parseWith f false (write f segs) = .ok u ∧
      parseWith f' true (render f' u) = .ok segs ∧
      ∃ u', parseWith f' false (render f' u) = .ok u' ∧ render f' u' = render f' u := by
  refine ⟨segs.map (keepEsc (Sim.sepOf f)), parse_write_unescaped f segs hwf, ?_⟩
  obtain ⟨h1, _, u', h2, h3, _⟩ := Sim.render_roundtrip f f' segs hwf
  exact ⟨h1, u', h2, h3⟩

theorem inferSep_of_head {t : Str} (f : Bool) (hne : t ≠ [])
    (h : if f then t.head? = some '/' else t.head? ≠ some '/') :
    inferSep t = (if f then .fslash else .dot) ∧ (normOriginal t = t → inferFslash t = f) := by
  cases t with
  | nil => exact absurd rfl hne
  | cons c r =>
    cases f with
    | true =>
      have hc : c = '/' := by simpa using h
      subst hc
      exact ⟨by simp [inferSep], fun hn => by simp [inferFslash, hn]⟩
    | false =>
      have hc : c ≠ '/' := by simpa using h
      exact ⟨by simp [inferSep, hc], fun hn => by simp [inferFslash, hn, hc]⟩

/-- `str()` of a freshly built path object whose text `t` (not blank, not empty) has the unescaped
segments `u ≠ []`: the rendering of `u` in the notation inferred from `t` -/
theorem str_new (f : Bool) (t : Str) (u : List Seg) (hn : normOriginal t = t)
    (hs : inferSep t = if f then .fslash else .dot) (hu : parseWith f false t = .ok u) (hune : u ≠ []) :
    ∃ p, (PathObj.new t).str = .ok (render f u, p) := by
  cases f <;>
    simp [PathObj.str, PathObj.new, PathObj.setOriginal, PathObj.unescaped, PathObj.parseObj,
      PathObj.getSep, hn, hs, SepOpt.isFslash] at hu ⊢ <;>
    simp [hu, hune]

/-- the same through the object model: `str(YAMLPath(text))` with the separator inferred from the
text re-parses (separator inferred again) to the written segments and is a fixed point of
`str ∘ YAMLPath`.  In dot notation neither the text nor its rendering may start with `/` (such texts
are forward-slash paths by the notation's own definition). -/
theorem str_fixed_point (f : Bool) (segs : List Seg) (hwf : wfSegs segs = true)
    (hne : segs ≠ [])
    (hx : f = false → dotExpressible segs = true ∧
        (render false (segs.map (keepEsc '.'))).head? ≠ some '/') :
    ∃ S p, (PathObj.new (write f segs)).str = .ok (S, p) ∧ parse true S = .ok segs ∧
      ∃ p', (PathObj.new S).str = .ok (S, p') := by
  have hu : parseWith f false (write f segs) = .ok (segs.map (keepEsc (Sim.sepOf f))) :=
    parse_write_unescaped f segs hwf
  obtain ⟨hp, hSn, u', hu', hfix, hlen⟩ := Sim.render_roundtrip f f segs hwf
  have hune : segs.map (keepEsc (Sim.sepOf f)) ≠ [] := by simpa using hne
  have hu'ne : u' ≠ [] := by
    intro h0; rw [h0] at hlen
    exact hne (List.length_eq_zero_iff.mp hlen.symm)
  -- neither text is empty
  have hwne : write f segs ≠ [] := by
    intro h0
    have := parse_write f segs hwf
    rw [h0, Sim.parseWith_nil] at this
    exact hne (Except.ok.inj this).symm
  have hSne : render f (segs.map (keepEsc (Sim.sepOf f))) ≠ [] := by
    intro h0
    rw [h0, Sim.parseWith_nil] at hp
    exact hne (Except.ok.inj hp).symm
  -- the separators inferred from the written and from the rendered text
  have hhead1 : if f then (write f segs).head? = some '/' else (write f segs).head? ≠ some '/' := by
    cases f
    · simpa [dotExpressible] using (hx rfl).1
    · simp [write]
  have hhead2 : if f then (render f (segs.map (keepEsc (Sim.sepOf f)))).head? = some '/'
      else (render f (segs.map (keepEsc (Sim.sepOf f)))).head? ≠ some '/' := by
    cases f
    · simpa [Sim.sepOf] using (hx rfl).2
    · simp [render]
  obtain ⟨hs1, _⟩ := inferSep_of_head f hwne hhead1
  obtain ⟨hs2, hi2⟩ := inferSep_of_head f hSne hhead2
  obtain ⟨p, hstr1⟩ := str_new f _ _ (Sim.write_nonblank f segs hwf) hs1 hu hune
  obtain ⟨p', hstr2⟩ := str_new f _ _ hSn hs2 hu' hu'ne
  refine ⟨_, p, hstr1, ?_, p', ?_⟩
  · unfold parse
    rw [hi2 hSn]; exact hp
  · rw [hfix] at hstr2; exact hstr2

theorem endsWith_append (a b : Str) : endsWith (a ++ b) b = true := by
  simp [endsWith]

/-- what `pop()` returns and the text it leaves -/
def popView (p : PathObj) : Except PErr (Seg × Str) := (p.pop).map (fun x => (x.1, x.2.original))

/-- `pop()` on a lengthened text `o1 = t ++ sep :: seg` returns the last (unescaped) segment `last`
and restores exactly `t` whenever `seg` is the library's own rendering of `last` (`hr`) and `o1` has
the unescaped segments `u` ending in `last`.  (`append_pop` below discharges the hypotheses
for written paths; `append_text` says what `append` does to the text.) -/
theorem pop_of_rendered (t seg : Str) (o1 : Str) (hn : normOriginal o1 = o1) (hnt : normOriginal t = t)
    (ho : o1 = t ++ (inferSep o1).char :: seg)
    (u : List Seg) (last : Seg)
    (hu : parseWith (inferSep o1).isFslash false o1 = .ok u) (hl : u.getLast? = some last)
    (hr : render (inferSep o1).isFslash [last] =
      (if inferSep o1 = .fslash then (inferSep o1).char :: seg else seg)) :
    popView (PathObj.new o1) = .ok (last, t) := by
  have hune : u ≠ [] := by rintro rfl; simp at hl
  have hauto : inferSep o1 ≠ .auto := by
    cases h : o1 with
    | nil => rw [h] at ho; simp at ho
    | cons c r => simp [inferSep]; split <;> simp
  cases hs : inferSep o1 with
  | auto => exact absurd hs hauto
  | dot =>
    rw [hs] at hr hu ho
    simp only [SepOpt.char] at ho
    simp only [SepOpt.isFslash] at hr hu
    simp at hr hu
    have he : endsWith o1 ('.' :: seg) = true := by rw [ho]; exact endsWith_append t ('.' :: seg)
    have hlen : o1.length - (seg.length + 1) = t.length := by rw [ho]; simp
    have htk : o1.take t.length = t := by rw [ho]; simp
    simp only [popView, PathObj.pop, PathObj.unescaped, PathObj.new, PathObj.setOriginal, PathObj.parseObj,
      PathObj.getSep, hn, hs, SepOpt.isFslash]
    simp [hu, hune, hl, hr, SepOpt.char, he, hlen, htk, hnt]
    rfl
  | fslash =>
    rw [hs] at hr hu ho
    simp only [SepOpt.char] at ho
    simp only [SepOpt.isFslash] at hr hu
    simp [SepOpt.char] at hr hu
    have he : endsWith o1 ('/' :: seg) = true := by rw [ho]; exact endsWith_append t ('/' :: seg)
    have hlen : o1.length - (seg.length + 1) = t.length := by rw [ho]; simp
    have htk : o1.take t.length = t := by rw [ho]; simp
    simp only [popView, PathObj.pop, PathObj.unescaped, PathObj.new, PathObj.setOriginal, PathObj.parseObj,
      PathObj.getSep, hn, hs, SepOpt.isFslash]
    simp [hu, hune, hl, hr, SepOpt.char, he, hlen, htk, hnt]
    rfl

/-- **pop() of a last segment that is not spelled the way it is printed** (repair 8d0a378).  `o1` is ANY
path text (normal form) in notation `f` whose unescaped segments are `u`, ending in `last`.  When the
library's rendering of `last` is not found at the end of the text — the three `endswith` tests of
`pop()` fail: the segment is demarcated (`'d e'`), bracketed (`[&anc]`), padded (`[ 1 ]`, `[a = b]`) —
`pop()` returns `last` and leaves the rendering of the OTHER segments, `render f u.dropLast`.  (Before
the repair the text was left unchanged: the popped segment stayed in the path.) -/
theorem pop_respelled (f : Bool) (o1 : Str) (hn : normOriginal o1 = o1)
    (hs : inferSep o1 = if f then .fslash else .dot)
    (u : List Seg) (last : Seg) (hu : parseWith f false o1 = .ok u) (hl : u.getLast? = some last)
    (h1 : endsWith o1 (if f then render f [last] else '.' :: render f [last]) = false)
    (h2 : endsWith o1 (render f [last]) = false)
    (h3 : f = true → endsWith o1 ((render f [last]).drop 1) = false) :
    popView (PathObj.new o1) = .ok (last, normOriginal (render f u.dropLast)) := by
  cases f with
  | false =>
    simp only [Bool.false_eq_true, ↓reduceIte] at hs h1
    simp only [popView, PathObj.pop, PathObj.unescaped, PathObj.new, PathObj.setOriginal, PathObj.parseObj,
      PathObj.getSep, hn, hs, SepOpt.isFslash]
    simp [hu, hl, SepOpt.char, h1, h2]
    rfl
  | true =>
    simp only [↓reduceIte] at hs h1
    have h3' := h3 rfl
    rw [List.drop_one] at h3'
    simp only [popView, PathObj.pop, PathObj.unescaped, PathObj.new, PathObj.setOriginal, PathObj.parseObj,
      PathObj.getSep, hn, hs, SepOpt.isFslash]
    simp [hu, hl, SepOpt.char, h1, h3']
    rfl

/-- … and what is left re-parses to exactly the other segments, in either target notation, whenever
those are the unescaped form of a well-formed list `segs` written in notation `f0` (`keepEsc`) — for
instance every canonical prefix, whatever the spelling of the popped segment. -/
theorem pop_respelled_reparses (f0 f : Bool) (segs : List Seg) (hwf : wfSegs segs = true) :
    parseWith f true (render f (segs.map (keepEsc (Sim.sepOf f0)))) = .ok segs :=
  (Sim.render_roundtrip f0 f segs hwf).1

/-- `append` on a non-empty path: the separator of the path's own notation and the segment text
are added to the text (and every cache is dropped). -/
theorem append_text (t seg : Str) (hnt : normOriginal t = t) (ht : t ≠ []) :
    (PathObj.new t).append seg =
      PathObj.new (t ++ (if inferSep t = .dot then '.' else '/') :: seg) := by
  have hl : ¬ t.length < 1 := by
    cases t with
    | nil => exact absurd rfl ht
    | cons c r => simp
  simp [PathObj.append, PathObj.new, PathObj.setOriginal, PathObj.getSep, hnt, hl]

/-- **append_pop.**  For every well-formed list `segs ≠ []` (all kinds) written in either notation
and every further segment `sg` such that `segs ++ [sg]` is well-formed,
`YAMLPath(text).append(canonical text of sg)` followed by `pop()` returns that segment (in its
unescaped form) and leaves exactly the original text.  `segText f sg` is the library's own rendering
of the segment (what the check appends).  Hypotheses, all facts of the notation rather than defects:
`appendable` — `append` puts a separator in front of the text, and by the documented syntax an `&`
right after a separator IS an anchor mark, so the text `&(…)` does not denote an intersection collector
there (collector operators are written directly behind the preceding collector); likewise `&+x`
directly behind a collector reads `+` as a collector operator; `dotExpressible` — a dot text starting
with `/` is a forward-slash path. -/
theorem append_pop (f : Bool) (segs : List Seg) (sg : Seg) (hne : segs ≠ [])
    (hwf : wfSegs (segs ++ [sg]) = true) (happ : appendable (lastIsColl false segs) sg = true)
    (hx : f = false → dotExpressible segs = true) :
    popView ((PathObj.new (write f segs)).append (Sim.segText f sg)) =
      .ok (keepEsc (Sim.sepOf f) sg, write f segs) := by
  have hw : wfSegs segs = true := by
    simp only [wfSegs, Sim.wfFrom_append, Bool.and_eq_true] at hwf
    exact hwf.1
  obtain ⟨hn, hu⟩ := Sim.append_parse f segs sg hne hwf happ
  have hnt := Sim.write_nonblank f segs hw
  have hwne : write f segs ≠ [] := by
    intro h0
    have := parse_write f segs hw
    rw [h0, Sim.parseWith_nil] at this
    exact hne (Except.ok.inj this).symm
  have hhead : if f then (write f segs).head? = some '/' else (write f segs).head? ≠ some '/' := by
    cases f
    · simpa [dotExpressible] using hx rfl
    · simp [write]
  obtain ⟨hs1, _⟩ := inferSep_of_head f hwne hhead
  have hhead2 : ∀ x : Str, if f then (write f segs ++ x).head? = some '/'
      else (write f segs ++ x).head? ≠ some '/' := by
    intro x
    cases hw0 : write f segs with
    | nil => exact absurd hw0 hwne
    | cons c r => rw [hw0] at hhead; simpa using hhead
  have hs2 : ∀ x : Str, inferSep (write f segs ++ x) = if f then .fslash else .dot :=
    fun x => (inferSep_of_head f (by simp [hwne]) (hhead2 x)).1
  rw [append_text _ _ hnt hwne, hs1]
  have hc : (if (if f then SepOpt.fslash else SepOpt.dot) = SepOpt.dot then '.' else '/')
      = Sim.sepOf f := by cases f <;> rfl
  rw [hc]
  apply pop_of_rendered (write f segs) (Sim.segText f sg) _ hn hnt
    (by rw [hs2]; cases f <;> rfl)
    (segs.map (keepEsc (Sim.sepOf f)) ++ [keepEsc (Sim.sepOf f) sg]) (keepEsc (Sim.sepOf f) sg)
  · rw [hs2]
    cases f <;> exact hu
  · simp
  · rw [hs2]
    cases f <;> simp [render, Sim.segText, Sim.sepOf, SepOpt.isFslash, SepOpt.char]

/-! Witnesses: the hypotheses are met by concrete, non-trivial values. -/

def demo : List Seg :=
  [(.key, .str "a.b/c d".toList), (.index, .int (-12)), (.anchor, .str "x y".toList),
   (.matchAll, .none), (.index, .str "1:-1".toList), (.traverse, .none), (.key, .str "\\'[".toList)]

example : (∀ s ∈ demo, isBasic s = true) ∧ wfSegs demo = true ∧ dotExpressible demo = true := by
  decide +kernel
example : write false demo = "a\\.b/c\\ d[-12][&x\\ y].*[1:-1].**.\\\\\\'\\[".toList := by decide +kernel
example : parse true (write false demo) = .ok demo ∧ parse true (write true demo) = .ok demo := by
  decide +kernel
/-- all kinds (stage 2 and 3 included) on a concrete list: the model parses the written text back -/
def demoAll : List Seg :=
  [(.key, .str "k".toList), (.search, .search true .regex ".".toList "x/y".toList),
   (.search, .search false .ge "a b".toList "1 ]".toList),
   (.keywordSearch, .keyword true .hasChild "a.b)".toList),
   (.collector, .collector "a.b".toList .none), (.collector, .collector "(c)".toList .sub)]
example : wfSegs demoAll = true ∧ parse true (write false demoAll) = .ok demoAll ∧
    parse true (write true demoAll) = .ok demoAll := by decide +kernel
/-- a dot-notation text starting with `/` is read as a forward-slash path -/
example : dotExpressible [(.key, .str "/a".toList)] = false ∧
    parse true (write false [(.key, .str "/a".toList)]) = .ok [(.key, .str "a".toList)] := by
  decide +kernel
/-- `append_pop` is not vacuous: a list with every kind, lengthened by a search segment -/
example : wfSegs (demoAll ++ [(.search, .search false .regex "a.b".toList "x y".toList)]) = true ∧
    appendable (lastIsColl false demoAll) (.search, .search false .regex "a.b".toList "x y".toList) = true ∧
    dotExpressible demoAll = true := by decide +kernel
/-- regression for finding C08-6 (repaired by /repo 5554362): an `&` collector operator behind
leading empty collectors keeps its meaning in forward-slash notation, and a collector expression may
start with `&` right after a separator -/
def regress6 : List Seg :=
  [(.collector, .collector [] .none), (.collector, .collector "b".toList .inter)]
example : wfSegs regress6 = true ∧ write true regress6 = "/()&(b)".toList ∧
    parseWith true true "/()&(b)".toList = .ok regress6 ∧
    parseWith false true (write false regress6) = .ok regress6 ∧
    parseWith true true "/(&a)".toList = .ok [(.collector, .collector "&a".toList .none)] ∧
    parseWith false true "x.(&a)".toList =
      .ok [(.key, .str "x".toList), (.collector, .collector "&a".toList .none)] := by decide +kernel
/-- why `appendable` excludes `&(…)`: behind the separator that `append` inserts, `&` is an anchor
mark by the notation, so `(a).&(b)` is two plain collectors and `pop()` leaves `(a).&` -/
example : popView ((PathObj.new "(a)".toList).append "&(b)".toList)
    = .ok ((.collector, .collector "b".toList .none), "(a).&".toList) := by decide +kernel
/-- append then pop on a concrete path (model): the segment comes back and the text is restored -/
example : popView ((PathObj.new "a.b[1]".toList).append "c\\.d".toList)
    = .ok ((.key, .str "c\\.d".toList), "a.b[1]".toList) := by decide +kernel
/-- `pop_respelled` is not vacuous and is what the repaired code does (finding C08-7, /repo 8d0a378): a
demarcated key, a bracketed anchor, a padded index and a padded search appended and popped — the
segment comes back and the other segments stay; in forward-slash notation too.  Before the repair
each of these left the whole text in place. -/
example : popView ((PathObj.new "abc.def".toList).append "'d e'".toList)
    = .ok ((.key, .str "d e".toList), "abc.def".toList) := by decide +kernel
example : popView ((PathObj.new "abc.def".toList).append "[&anc]".toList)
    = .ok ((.anchor, .str "anc".toList), "abc.def".toList) := by decide +kernel
example : popView ((PathObj.new "/abc/d\\/e".toList).append "[ 1 ]".toList)
    = .ok ((.index, .int 1), "/abc/d\\/e".toList) := by decide +kernel
example : popView ((PathObj.new "abc.'x y'".toList).append "[a = b]".toList)
    = .ok ((.search, .search false .equals "a".toList "b".toList), "abc.x\\ y".toList) := by decide +kernel
/-- the hypotheses of `pop_respelled` on the first of these -/
example : normOriginal "abc.def.'d e'".toList = "abc.def.'d e'".toList ∧
    inferSep "abc.def.'d e'".toList = .dot ∧
    parseWith false false "abc.def.'d e'".toList =
      .ok [(.key, .str "abc".toList), (.key, .str "def".toList), (.key, .str "d e".toList)] ∧
    endsWith "abc.def.'d e'".toList ('.' :: render false [(.key, .str "d e".toList)]) = false ∧
    endsWith "abc.def.'d e'".toList (render false [(.key, .str "d e".toList)]) = false := by decide +kernel
/-- `eqModel` on the suspicion's input (after the repair): both have the single key `a.b` -/
example : eqModel "a\\.b".toList "/a.b".toList = .ok true := by decide +kernel

end Ypv.C08
