import Ypv.Lemmas.Merge
/-!
# C05 — merging two documents yields the policy-defined result for every option mix

Theorems about `Ypv.Merge.mergeWith` (the model of `Merger.merge_with` at the root path as the
code stands after the proposed fixes C05-1 … C05-5), for **every** configuration `cfg`
(command-line values, `[defaults]`, `[rules]`, `[keys]`, any `typed_value` function — universally
quantified, not enumerated), every left-hand and right-hand document.
-/
namespace Ypv.C05
open Ypv Ypv.Merge Ypv.Merge.Spec

/-! ## merge_total -/

theorem listToSet_nc : ∀ (items : List Node) (acc : List Key), NoCrash (listToSet items acc)
  | [], acc => by simp only [listToSet]; exact NoCrash.ok _
  | ele :: rest, acc => by
    simp only [listToSet]
    cases ele with
    | scalar a v =>
      simp only [setAdd]
      cases scalarKey? v with
      | none => exact NoCrash.oom
      | some k => exact listToSet_nc rest _
    | seq a xs => exact NoCrash.merge
    | map a xs => exact NoCrash.merge
    | set a xs => exact NoCrash.merge

theorem mergeDicts_nc (env : Env) (lv par : Node) (res : List (Key × Node)) :
    NoCrash (mergeDicts env lv par res) :=
  (dictWrap_ok lv (dictLoop env par res) (dictLoop_nc env par res)).1

theorem rootTagSync_nc (l : Node) (x : Except MErr Node) (h : NoCrash x)
    (hs : ∀ m, x = .ok m → l.isScalar = false) : NoCrash (rootTagSync l x) := by
  unfold rootTagSync
  cases x with
  | error e => exact h
  | ok m =>
    have := hs m rfl
    cases l <;> simp_all [Node.isScalar, tagOf] <;> exact NoCrash.ok _

theorem insertDict_nc (env : Env) (l : Node) (ra : Option Str) (res : List (Key × Node)) :
    NoCrash (insertDict env l ra res) ∧ ∀ m, insertDict env l ra res = .ok m → l.isScalar = false := by
  unfold insertDict
  cases l with
  | scalar a v => exact ⟨NoCrash.merge, by intro m h; cases h⟩
  | set a xs => exact ⟨NoCrash.merge, by intro m h; cases h⟩
  | seq a xs => exact ⟨(mergeLists_nc env _ none _ _).1, fun _ _ => rfl⟩
  | map a xs =>
    refine ⟨?_, fun _ _ => rfl⟩
    simp only
    cases hm : hashMode env ⟨.map ra res, none, none⟩ with
    | error e => exact NoCrash.of_conf (hashMode_conf env _) hm
    | ok mode => cases mode <;> first | exact NoCrash.ok _ | exact mergeDicts_nc env _ _ _

theorem insertList_nc (env : Env) (l : Node) (ra : Option Str) (ritems : List Node) :
    NoCrash (insertList env l ra ritems) ∧ ∀ m, insertList env l ra ritems = .ok m → l.isScalar = false := by
  unfold insertList
  cases l with
  | scalar a v => exact ⟨NoCrash.merge, by intro m h; cases h⟩
  | map a xs => exact ⟨NoCrash.merge, by intro m h; cases h⟩
  | seq a xs => exact ⟨(mergeLists_nc env _ ra _ _).1, fun _ _ => rfl⟩
  | set a xs =>
    refine ⟨?_, fun _ _ => rfl⟩
    simp only
    cases hs : listToSet ritems [] with
    | error e => intro k hk; cases hk; exact listToSet_nc ritems [] k hs
    | ok ms => exact (mergeSets_ok env _ none ms _).1

theorem insertSet_nc (env : Env) (l : Node) (ra : Option Str) (rms : List Key) :
    NoCrash (insertSet env l ra rms) ∧ ∀ m, insertSet env l ra rms = .ok m → l.isScalar = false := by
  unfold insertSet
  cases l with
  | scalar a v => exact ⟨by simp only [mergeSets]; exact NoCrash.merge, by intro m h; simp [mergeSets] at h⟩
  | map a xs => exact ⟨mergeDicts_nc env _ _ _, fun _ _ => rfl⟩
  | seq a xs => exact ⟨(mergeLists_nc env _ none _ _).1, fun _ _ => rfl⟩
  | set a xs => exact ⟨(mergeSets_ok env _ ra rms _).1, fun _ _ => rfl⟩

theorem insertScalar_nc (env : Env) (l : Node) (ra : Option Str) (v : Scalar) :
    NoCrash (insertScalar env l ra v) := by
  unfold insertScalar
  cases l with
  | scalar a v' => exact NoCrash.ok _
  | map a xs => exact NoCrash.merge
  | seq a xs => exact NoCrash.ok _
  | set a xs =>
    simp only
    cases scalarKey? v with
    | none => exact NoCrash.oom
    | some k =>
      simp only
      cases hm : setMode env ⟨.scalar ra v, none, none⟩ with
      | error e => exact NoCrash.of_conf (setMode_conf env _) hm
      | ok mode => cases mode <;> exact NoCrash.ok _

/-- **merge_total.**  For every configuration and every pair of documents the merge ends in a
document, a merge error (`MergeException`), the configuration error of an invalid rule text, or —
for set members the model does not cover — `outOfModel`; **no crash outcome is reachable**: neither
the `AttributeError` of a tag read from a scalar, nor the `TypeError`s of `id_key in ele` /
`set.add(container)`. -/
theorem merge_total (cfg : Config) (l r : Node) : NoCrash (mergeWith cfg l r) := by
  unfold mergeWith
  split
  · exact NoCrash.ok _
  · split
    · exact NoCrash.ok _
    · simp only
      cases r with
      | map ra res =>
        exact rootTagSync_nc l _ (insertDict_nc _ l ra res).1 (insertDict_nc _ l ra res).2
      | seq ra ritems =>
        exact rootTagSync_nc l _ (insertList_nc _ l ra ritems).1 (insertList_nc _ l ra ritems).2
      | set ra rms =>
        exact rootTagSync_nc l _ (insertSet_nc _ l ra rms).1 (insertSet_nc _ l ra rms).2
      | scalar ra v => exact insertScalar_nc _ l ra v

/-! ## policy_precedence -/

/-- **policy_precedence.**  The mode a configuration answers for a node is: the rule registered
for the node (converted by the enumeration of the node's kind), else the command-line value, else
the `[defaults]` value, else the built-in default — for each of the four kinds. -/
theorem policy_precedence {α : Type} (rule : Option RuleName) (conv : RuleName → Except MErr α)
    (cli dflt : Option α) (builtin : α) :
    (∀ n, rule = some n → pick rule conv cli dflt builtin = conv n) ∧
    (∀ v, rule = none → cli = some v → pick rule conv cli dflt builtin = .ok v) ∧
    (∀ v, rule = none → cli = none → dflt = some v → pick rule conv cli dflt builtin = .ok v) ∧
    (rule = none → cli = none → dflt = none → pick rule conv cli dflt builtin = .ok builtin) := by
  refine ⟨?_, ?_, ?_, ?_⟩
  · intro n h; subst h; rfl
  · intro v h1 h2; subst h1; subst h2; rfl
  · intro v h1 h2 h3; subst h1; subst h2; subst h3; rfl
  · intro h1 h2 h3; subst h1; subst h2; subst h3; rfl

/-- The four `*_merge_mode` methods are instances of `pick` with the built-in defaults
DEEP / ALL / ALL / UNIQUE. -/
theorem modes_are_pick (env : Env) (c : Coords) :
    hashMode env c = pick (ruleFor env c) RuleName.toHash env.cfg.hashCli env.cfg.hashDef .deep ∧
    arrayMode env c = pick (ruleFor env c) RuleName.toArray env.cfg.arrayCli env.cfg.arrayDef .all ∧
    aohMode env c = pick (ruleFor env c) RuleName.toAoh env.cfg.aohCli env.cfg.aohDef .all ∧
    setMode env c = pick (ruleFor env c) RuleName.toSet env.cfg.setCli env.cfg.setDef .unique :=
  ⟨rfl, rfl, rfl, rfl⟩

/-! ## Content -/

/-- **array_all_is_append** (and the other array policies): a simple list merged into a list is
`Spec.arrayMerge` of the applicable mode — ALL is `l ++ r`. -/
theorem array_merge_eq_spec (env : Env) (la ra : Option Str) (l r : List Node) (c : Coords)
    (mode : ArrayOpt) (hm : arrayMode env c = .ok mode) :
    ∃ a, mergeSimple env (.seq la l) ra r c = .ok (.seq a (arrayMerge mode l r)) := by
  unfold mergeSimple
  simp only [hm]
  cases mode <;> exact ⟨_, rfl⟩

theorem array_all_is_append (env : Env) (la ra : Option Str) (l r : List Node) (c : Coords)
    (hm : arrayMode env c = .ok .all) :
    mergeSimple env (.seq la l) ra r c = .ok (.seq la (l ++ r)) := by
  unfold mergeSimple; simp only [hm]

/-- Sets merge as `Spec.setMerge` of the applicable mode. -/
theorem set_merge_eq_spec (env : Env) (la ra : Option Str) (l r : List Key) (c : Coords)
    (mode : SetOpt) (hm : setMode env c = .ok mode) :
    ∃ a, mergeSets env (.set la l) ra r c = .ok (.set a (setMerge mode l r)) := by
  unfold mergeSets
  simp only [hm]
  cases mode <;> exact ⟨_, rfl⟩

/-- **rhs_scalar_overrides.**  Under a key present on both sides a right-hand scalar replaces
whatever the left-hand side holds, and a right-hand scalar document replaces a left-hand scalar
document — under every configuration. -/
theorem rhs_scalar_overrides (cfg : Config) (env : Env) (lv : Node) (c : Coords) (a : Option Str) (v : Scalar) :
    mergeVal env lv c (.scalar a v) = .ok (.scalar a v) ∧
    (∀ a' v', v ≠ .null → v' ≠ .null → mergeWith cfg (.scalar a' v') (.scalar a v) = .ok (.scalar a v)) := by
  refine ⟨by simp only [mergeVal], ?_⟩
  intro a' v' hv hv'
  cases v <;> cases v' <;> simp_all [mergeWith, insertScalar]

/-- Structurally impossible merges at the root are merge errors — never a crash, never a silently
different document (the `Spec.Impossible` pairs; for an Array into a Set the first container found
is refused unless an earlier scalar element is outside the model's sets). -/
theorem impossible_is_merge_error (cfg : Config) (l r : Node) (h : Impossible l r)
    (hset : ∀ a ms, l = .set a ms → ∀ ra items, r = .seq ra items → ∀ x ∈ items, ∀ a' v, x = .scalar a' v → (scalarKey? v).isSome) :
    mergeWith cfg l r = .error .merge := by
  cases l with
  | map a xs =>
    cases r with
    | seq ra items => simp [mergeWith, insertList, rootTagSync]
    | scalar ra v =>
      have hv : v ≠ .null := h
      cases v <;> simp_all [mergeWith, insertScalar]
    | map ra res => exact absurd h (by simp [Impossible])
    | set ra rms => exact absurd h (by simp [Impossible])
  | scalar a v =>
    cases r with
    | seq ra items =>
      have hv : v ≠ .null := h
      cases v <;> simp_all [mergeWith, insertList, rootTagSync]
    | map ra res =>
      have hv : v ≠ .null := h
      cases v <;> simp_all [mergeWith, insertDict, rootTagSync]
    | set ra rms =>
      have hv : v ≠ .null := h
      cases v <;> simp_all [mergeWith, insertSet, rootTagSync, mergeSets]
    | scalar ra v' => exact absurd h (by simp [Impossible])
  | seq a xs => cases r <;> exact absurd h (by simp [Impossible])
  | set a xs =>
    cases r with
    | map ra res => simp [mergeWith, insertDict, rootTagSync]
    | seq ra items =>
      obtain ⟨x, hx, hxs⟩ : ∃ x ∈ items, x.isScalar = false := h
      have hsc := hset a xs rfl ra items rfl
      have key : ∀ (its : List Node) (acc : List Key), (∃ x ∈ its, x.isScalar = false) →
          (∀ x ∈ its, ∀ a' v, x = .scalar a' v → (scalarKey? v).isSome) →
          listToSet its acc = .error .merge := by
        intro its
        induction its with
        | nil => intro acc ⟨x, hx, _⟩; cases hx
        | cons y ys ih =>
          intro acc ⟨x, hx, hxs⟩ hall
          simp only [listToSet]
          cases y with
          | scalar a' v =>
            have hk := hall (.scalar a' v) (List.mem_cons_self) a' v rfl
            simp only [setAdd]
            cases hsk : scalarKey? v with
            | none => rw [hsk] at hk; cases hk
            | some k =>
              simp only
              refine ih _ ?_ (fun z hz => hall z (List.mem_cons_of_mem _ hz))
              rcases List.mem_cons.mp hx with rfl | hx'
              · simp [Node.isScalar] at hxs
              · exact ⟨x, hx', hxs⟩
          | seq _ _ => rfl
          | map _ _ => rfl
          | set _ _ => rfl
      simp [mergeWith, insertList, rootTagSync, key items [] ⟨x, hx, hxs⟩ hsc]
    | set ra rms => exact absurd h (by simp [Impossible])
    | scalar ra v => exact absurd h (by simp [Impossible])

/-! ## Key order, key set and per-key content of a deep hash merge

`mergeDicts env (.map la l) par r` is `_merge_dicts(lhs, rhs)`: the DEEP merge of the right-hand
mapping `par` (entries `r`) into the left-hand mapping with entries `l` — at the root
(`root_hash_merge`) and, recursively, under every key present on both sides
(`mergeVal_map_eq_mergeDicts`).  A Python `dict` has no duplicate keys; the model's entry lists can,
so the theorems that speak about right-only keys carry `(keys r).Nodup` (shown necessary below). -/

/-- **lhs_order_kept** (left-hand half of `OrderOK`, no hypothesis on `r`): the sub-list of the
merged mapping's keys that are keys of `l` *is* `l`'s key list — left-hand keys keep their relative
order (and multiplicity) under every configuration. -/
theorem lhs_order_kept (env : Env) (la : Option Str) (l : List (Key × Node)) (par : Node)
    (r : List (Key × Node)) (m : Node) (h : mergeDicts env (.map la l) par r = .ok m) :
    ∃ es, m = .map la es ∧ (keys es).filter (fun k => (keys l).contains k) = keys l := by
  obtain ⟨st, hl, rfl⟩ := mergeDicts_shape env la l par r m h
  refine ⟨_, rfl, ?_⟩
  have hinv : InvL (keys l) ⟨l, [], 0⟩ := by
    refine ⟨?_, by intro kv hkv; cases hkv⟩
    simp only
    apply List.filter_eq_self.mpr
    intro k hk; simpa using hk
  have := dictLoop_InvL env par (keys l) r _ _ hl hinv
  simp only [keys, List.map_append, List.filter_append] at this ⊢
  have hb : (st.buffer.map (·.1)).filter (fun k => (l.map (·.1)).contains k) = [] := by
    apply List.filter_eq_nil_iff.mpr
    intro k hk
    obtain ⟨kv, hkv, rfl⟩ := List.mem_map.mp hk
    simpa [keys] using this.2 kv hkv
  rw [hb, List.append_nil]; exact this.1

/-- **merge_order_ok.**  For every configuration, every left-hand mapping `l` and every right-hand
mapping `r` (without duplicate keys — a Python `dict`), a successful deep hash merge yields a
mapping `es` with `OrderOK l r es`: the keys of `l` appear in `es` in their original relative order,
**and the keys only in `r` appear in `es` in `r`'s relative order** (exactly: the sub-list of `es`'s
keys that are not keys of `l` *is* the sub-list of `r`'s keys that are not keys of `l`).  The
right-only half rests on the loop invariant `InvR`: no right-only key sits at or after
`buffer_pos`, so inserting the buffer at `buffer_pos` puts it behind every right-only key already
placed. -/
theorem merge_order_ok (env : Env) (la : Option Str) (l : List (Key × Node)) (par : Node)
    (r : List (Key × Node)) (m : Node) (h : mergeDicts env (.map la l) par r = .ok m)
    (hr : (keys r).Nodup) :
    ∃ es, m = .map la es ∧ OrderOK l r es := by
  obtain ⟨es, hm, hleft⟩ := lhs_order_kept env la l par r m h
  obtain ⟨st, hl, hm'⟩ := mergeDicts_shape env la l par r m h
  subst hm'
  cases hm
  refine ⟨_, rfl, hleft, ?_⟩
  have hinv : InvR (keys l) ⟨l, [], 0⟩ := by
    refine ⟨⟨?_, by intro kv hkv; cases hkv⟩, ?_⟩
    · simp only
      apply List.filter_eq_self.mpr
      intro k hk; simpa using hk
    · intro k hk; simpa using hk
  have := dictLoop_InvR env par (keys l) r _ _ hl hinv hr (by
    intro k _ hL
    refine ⟨by simpa using hL, by simp [keys]⟩)
  rw [this]
  have h0 : (keys l).filter (fun k => !(keys l).contains k) = [] := by
    apply List.filter_eq_nil_iff.mpr
    intro k hk; simpa using hk
  simp only [h0, List.nil_append]
  simp [keys]

/-- `(keys r).Nodup` is needed for the right-only half: with the key `x` twice in the right-hand
entry list (impossible for a `dict`) the second `x` is merged into the first, already flushed one. -/
example :
    let l := [(Key.str "b".toList, Node.scalar none (.int 1))]
    let r := [(Key.str "x".toList, Node.scalar none (.int 1)), (.str "b".toList, .scalar none (.int 2)),
       (.str "x".toList, .scalar none (.int 3))]
    let es := [(Key.str "b".toList, Node.scalar none (.int 2)), (.str "x".toList, .scalar none (.int 3))]
    mergeDicts (prepare {} (.scalar none .null)) (.map none l) (.scalar none .null) r = .ok (.map none es) ∧
    (keys es).filter (fun k => !(keys l).contains k) = [.str "x".toList] ∧
    (keys r).filter (fun k => !(keys l).contains k) = [.str "x".toList, .str "x".toList] := by
  decide +kernel

/-- **hash_deep_keys** (both inclusions, no hypothesis on `l` or `r`): the key set of a deep hash
merge is the union of the two key sets. -/
theorem hash_deep_keys (env : Env) (la : Option Str) (l : List (Key × Node)) (par : Node)
    (r : List (Key × Node)) (m : Node) (h : mergeDicts env (.map la l) par r = .ok m) :
    ∃ es, m = .map la es ∧ ∀ k, k ∈ keys es ↔ k ∈ keys l ∨ k ∈ keys r := by
  obtain ⟨st, hl, rfl⟩ := mergeDicts_shape env la l par r m h
  refine ⟨_, rfl, fun k => ?_⟩
  rw [dictLoop_mem_keys env par k r _ _ hl]
  simp [keys]

/-- Every left-hand key survives (one inclusion of `hash_deep_keys`, kept under its old name). -/
theorem lhs_keys_kept (env : Env) (la : Option Str) (l : List (Key × Node)) (par : Node)
    (r : List (Key × Node)) (m : Node) (h : mergeDicts env (.map la l) par r = .ok m) :
    ∃ a es, m = .map a es ∧ ∀ k ∈ keys l, k ∈ keys es := by
  obtain ⟨es, hm, hk⟩ := hash_deep_keys env la l par r m h
  exact ⟨la, es, hm, fun k hkl => (hk k).mpr (.inl hkl)⟩

/-- **lhs_only_content_preserved** (keys, values and order; no hypothesis on `l` or `r`): left-hand
content that the right-hand mapping does not name keeps its value — `es.get(k) = l.get(k)` for every
key `k` that is not a key of `r` — and (`lhs_order_kept`) the left-hand keys keep their relative
order. -/
theorem lhs_only_content_preserved (env : Env) (la : Option Str) (l : List (Key × Node)) (par : Node)
    (r : List (Key × Node)) (m : Node) (h : mergeDicts env (.map la l) par r = .ok m) :
    ∃ es, m = .map la es ∧ (∀ k, k ∉ keys r → lookupKey k es = lookupKey k l) ∧
      (keys es).filter (fun k => (keys l).contains k) = keys l := by
  obtain ⟨es, hm, hleft⟩ := lhs_order_kept env la l par r m h
  obtain ⟨st, hl, hm'⟩ := mergeDicts_shape env la l par r m h
  subst hm'
  cases hm
  refine ⟨_, rfl, ?_, hleft⟩
  intro k hk
  have := dictLoop_look_notin env par k r _ _ hl (Disj_nil _ _) hk
  simpa [look] using this

/-- **merge_content_eq_spec** (deep hash merges, per-key lookup characterisation).  For every
configuration, a successful `_merge_dicts` of a right-hand mapping `r` (no duplicate keys) into `l`
yields a mapping `es` whose content is, key by key:
* `k` not in `r`: `es.get(k) = l.get(k)` (absent stays absent, present keeps its value);
* `k` in `r` with value `rv`: `Spec.Merged env par k (l.get(k)) rv (es.get(k))` — only in `r`: `rv`;
  in both: the left value under LEFT, `rv` under RIGHT, else the recursive merge `mergeVal` of the
  two values (LEFT/RIGHT/else is the policy of `rv`'s own kind or a rule for that node).
Together with `hash_deep_keys` (key set = union) and `merge_order_ok` this determines the merged
mapping up to the interleaving of left-hand and right-only keys. -/
theorem merge_content_eq_spec (env : Env) (la : Option Str) (l : List (Key × Node)) (par : Node)
    (r : List (Key × Node)) (m : Node) (h : mergeDicts env (.map la l) par r = .ok m)
    (hr : (keys r).Nodup) :
    ∃ es, m = .map la es ∧ (∀ k, k ∉ keys r → lookupKey k es = lookupKey k l) ∧
      ∀ k rv, lookupKey k r = some rv → Merged env par k (lookupKey k l) rv (lookupKey k es) := by
  obtain ⟨es, hm, hkeep, _⟩ := lhs_only_content_preserved env la l par r m h
  obtain ⟨st, hl, hm'⟩ := mergeDicts_shape env la l par r m h
  subst hm'
  cases hm
  refine ⟨_, rfl, hkeep, ?_⟩
  intro k rv hrv
  exact dictLoop_look env par r _ _ hl (Disj_nil _ _) hr (by intro k _; simp [keys]) k rv hrv

/-- The recursion of `merge_content_eq_spec`: the merge of a right-hand mapping found under a shared
key is again `_merge_dicts` (with that mapping as the rule-lookup parent), so the characterisation
applies at every depth. -/
theorem mergeVal_map_eq_mergeDicts (env : Env) (lv : Node) (c : Coords) (a : Option Str)
    (res : List (Key × Node)) :
    mergeVal env lv c (.map a res) = mergeDicts env lv (.map none res) res := by
  simp only [mergeVal, mergeDicts]
  have h := dictWrap_ok lv (dictLoop env (.map none res) res) (dictLoop_nc env (.map none res) res)
  unfold syncTag
  cases hd : dictWrap lv (dictLoop env (.map none res) res) with
  | error e => rfl
  | ok m => simp only [tagOf_ok_of_container (.inr (.inl (h.2 m hd)))]

/-- At the root: a mapping merged into a mapping is, by the hash policy of the right-hand root,
the left document, the right document, or `_merge_dicts` of the two. -/
theorem root_hash_merge (cfg : Config) (la ra : Option Str) (l r : List (Key × Node)) :
    mergeWith cfg (.map la l) (.map ra r) =
      match hashMode (prepare cfg (.map ra r)) ⟨.map ra r, none, none⟩ with
      | .error e => .error e
      | .ok .left => .ok (.map la l)
      | .ok .right => .ok (.map ra r)
      | .ok .deep => mergeDicts (prepare cfg (.map ra r)) (.map la l) (.map ra r) r := by
  simp only [mergeWith, insertDict]
  cases hm : hashMode (prepare cfg (.map ra r)) ⟨.map ra r, none, none⟩ with
  | error e => simp [rootTagSync]
  | ok mode =>
    cases mode with
    | left => simp [rootTagSync, tagOf]
    | right => simp [rootTagSync, tagOf]
    | deep =>
      simp only
      cases hd : mergeDicts (prepare cfg (.map ra r)) (.map la l) (.map ra r) r with
      | error e => simp [rootTagSync]
      | ok m => simp [rootTagSync, tagOf]

/-- The deep-hash theorems at the entry point: `merge_with` of a right-hand mapping document (no
duplicate keys) into a left-hand mapping document under hashes=DEEP (by rule, command line,
`[defaults]` or built-in) yields a mapping whose key set is the union, in which keys not named by `r`
keep their value, keys of `r` hold `Spec.Merged` (right-only: `r`'s value; shared: LEFT / RIGHT /
recursive merge), and whose key order is `OrderOK`. -/
theorem merge_with_deep_hash_spec (cfg : Config) (la ra : Option Str) (l r : List (Key × Node)) (m : Node)
    (h : mergeWith cfg (.map la l) (.map ra r) = .ok m)
    (hmode : hashMode (prepare cfg (.map ra r)) ⟨.map ra r, none, none⟩ = .ok .deep)
    (hr : (keys r).Nodup) :
    ∃ es, m = .map la es ∧
      (∀ k, k ∈ keys es ↔ k ∈ keys l ∨ k ∈ keys r) ∧
      (∀ k, k ∉ keys r → lookupKey k es = lookupKey k l) ∧
      (∀ k rv, lookupKey k r = some rv →
        Merged (prepare cfg (.map ra r)) (.map ra r) k (lookupKey k l) rv (lookupKey k es)) ∧
      OrderOK l r es := by
  rw [root_hash_merge, hmode] at h
  simp only at h
  obtain ⟨es1, hm1, hkeys⟩ := hash_deep_keys _ la l _ r m h
  obtain ⟨es2, hm2, hkeep, hmerged⟩ := merge_content_eq_spec _ la l _ r m h hr
  obtain ⟨es3, hm3, hord⟩ := merge_order_ok _ la l _ r m h hr
  subst hm1
  cases hm2; cases hm3
  exact ⟨es1, rfl, hkeys, hkeep, hmerged, hord⟩

/-- Well-formedness is closed under the merge: when neither side has duplicate keys the merged
mapping has none either (so the `Nodup` hypothesis of the theorems above is again available for the
result, e.g. for the next record merged into the same Array-of-Hashes element). -/
theorem merge_keys_nodup (env : Env) (la : Option Str) (l : List (Key × Node)) (par : Node)
    (r : List (Key × Node)) (m : Node) (h : mergeDicts env (.map la l) par r = .ok m)
    (hl : (keys l).Nodup) (hr : (keys r).Nodup) :
    ∃ es, m = .map la es ∧ (keys es).Nodup := by
  obtain ⟨es, hm, h1, h2⟩ := merge_order_ok env la l par r m h hr
  refine ⟨es, hm, nodup_of_filter (fun k => (keys l).contains k) _ (by rw [h1]; exact hl) ?_⟩
  rw [h2]
  exact List.Nodup.sublist List.filter_sublist hr

/-- Under a shared key a right-hand Array is merged by `_merge_lists` (simple lists:
`array_merge_eq_spec`; Arrays-of-Hashes: `aoh_deep_eq_spec` …). -/
theorem mergeVal_seq_eq_mergeLists (env : Env) (lv : Node) (c : Coords) (ra : Option Str)
    (ritems : List Node) :
    mergeVal env lv c (.seq ra ritems) = mergeLists env lv ra ritems c := by
  simp only [mergeVal]
  have h := mergeLists_nc env lv ra ritems c
  unfold syncTag
  cases hd : mergeLists env lv ra ritems c with
  | error e => rfl
  | ok m => simp only [tagOf_ok_of_container (.inl (h.2 m hd))]

/-- Under a shared key a right-hand Set is merged by `_merge_sets` (`set_merge_eq_spec`). -/
theorem mergeVal_set_eq_mergeSets (env : Env) (lv : Node) (c : Coords) (ra : Option Str)
    (rms : List Key) :
    mergeVal env lv c (.set ra rms) = mergeSets env lv ra rms c := by
  simp only [mergeVal]
  have h := mergeSets_ok env lv ra rms c
  unfold syncTag
  cases hd : mergeSets env lv ra rms c with
  | error e => rfl
  | ok m => simp only [tagOf_ok_of_container (.inr (.inr (h.2 m hd)))]

/-- At the root an Array merged into an Array is `_merge_lists` with the right-hand root's policy. -/
theorem root_list_merge (cfg : Config) (la ra : Option Str) (l r : List Node) :
    mergeWith cfg (.seq la l) (.seq ra r) =
      mergeLists (prepare cfg (.seq ra r)) (.seq la l) ra r ⟨.seq ra r, none, none⟩ := by
  simp only [mergeWith, insertList]
  cases hd : mergeLists (prepare cfg (.seq ra r)) (.seq la l) ra r ⟨.seq ra r, none, none⟩ with
  | error e => simp [rootTagSync]
  | ok m => simp [rootTagSync, tagOf]

/-- `_merge_lists` of a right-hand list whose first element is not a Hash is `_merge_simple_lists`. -/
theorem mergeLists_simple (env : Env) (lv : Node) (ra : Option Str) (first : Node) (rrest : List Node)
    (c : Coords) (hf : isMap first = false) :
    mergeLists env lv ra (first :: rrest) c = mergeSimple env lv ra (first :: rrest) c := by
  cases first <;> simp_all [mergeLists, isMap]

/-! ## Array-of-Hashes DEEP merges by identity key -/

/-- **merge_content_eq_spec** (Array-of-Hashes, DEEP): when the first right-hand element is a Hash
and the applicable AoH policy is DEEP, `_merge_lists` of the right-hand list into a left-hand list
succeeds with `m` **iff** `m` is the left-hand list after `Spec.AohDeep`: the right-hand records are
taken in order, each must carry the identity key (`aoh_merge_key` of the first record), and each is
appended when no element of the list as it then stands has the same identity, else deep-merged
(`_merge_dicts`) in place into the first element that has.  Both directions: the relation is sound
and complete for the model. -/
theorem aoh_deep_eq_spec (env : Env) (la ra : Option Str) (litems : List Node) (fa : Option Str)
    (fes : List (Key × Node)) (rrest : List Node) (c : Coords) (m : Node)
    (hmode : aohMode env c = .ok .deep) :
    mergeLists env (.seq la litems) ra (.map fa fes :: rrest) c = .ok m ↔
      ∃ out, m = .seq la out ∧
        AohDeep env (aohMergeKey env ⟨.map fa fes, some (.seq ra (.map fa fes :: rrest)), some (.idx 0)⟩ fes)
          litems (.map fa fes :: rrest) out := by
  simp only [mergeLists, hmode]
  constructor
  · intro h
    cases h1 : aohDeepStep env _ litems (.map fa fes) with
    | error e => rw [h1] at h; cases h
    | ok l1 =>
      rw [h1] at h
      simp only at h
      cases h2 : aohDeepLoop env _ rrest l1 with
      | error e => rw [h2] at h; cases h
      | ok l2 =>
        rw [h2] at h; cases h
        exact ⟨l2, rfl, AohDeep.cons _ l1 _ fa fes rrest ((aohDeepStep_iff ..).mp h1)
          ((aohDeepLoop_iff ..).mp h2)⟩
  · rintro ⟨out, rfl, h⟩
    cases h with
    | cons _ l1 _ _ _ _ hstep hrest =>
      rw [(aohDeepStep_iff ..).mpr hstep]
      simp only
      rw [(aohDeepLoop_iff ..).mpr hrest]

/-- What one `Spec.AohStep` does to the record it touches (the per-key characterisation of
`merge_content_eq_spec`, by identity key): a right-hand record `{es}` (no duplicate keys) with
identity value `idv` is either **appended** — no left-hand element has that identity — or the first
left-hand element with that identity is a Hash `{les}` and is replaced in place by a Hash `{es'}`
with: key set the union, keys not named by the record keeping their value, keys of the record
holding `Spec.Merged` (right-only: the record's value; shared: LEFT / RIGHT / recursive merge),
and `OrderOK les es es'`.  All other elements are untouched. -/
theorem aoh_deep_step_content (env : Env) (idKey : Key) (litems : List Node) (a : Option Str)
    (es : List (Key × Node)) (out : List Node) (h : AohStep env idKey litems a es out)
    (hes : (keys es).Nodup) :
    ∃ idv, lookupKey idKey es = some idv ∧
      (((∀ x ∈ litems, recordMatches env idKey (typedNode env idv) x = false) ∧
          out = litems ++ [.map a es]) ∨
       ∃ pre la' les post es', litems = pre ++ .map la' les :: post ∧
          (∀ x ∈ pre, recordMatches env idKey (typedNode env idv) x = false) ∧
          recordMatches env idKey (typedNode env idv) (.map la' les) = true ∧
          out = pre ++ .map la' es' :: post ∧
          (∀ k, k ∈ keys es' ↔ k ∈ keys les ∨ k ∈ keys es) ∧
          (∀ k, k ∉ keys es → lookupKey k es' = lookupKey k les) ∧
          (∀ k rv, lookupKey k es = some rv →
            Merged env (.map a es) k (lookupKey k les) rv (lookupKey k es')) ∧
          OrderOK les es es') := by
  cases h with
  | append idv hid hall => exact ⟨idv, hid, .inl ⟨hall, rfl⟩⟩
  | merge idv pre lh post m hid e hpre hlh hm =>
    refine ⟨idv, hid, .inr ?_⟩
    cases lh with
    | map la' les =>
      obtain ⟨es1, hm1, hkeys⟩ := hash_deep_keys env la' les _ es m hm
      obtain ⟨es2, hm2, hkeep, hmerged⟩ := merge_content_eq_spec env la' les _ es m hm hes
      obtain ⟨es3, hm3, hord⟩ := merge_order_ok env la' les _ es m hm hes
      subst hm1
      cases hm2; cases hm3
      exact ⟨pre, la', les, post, es1, e, hpre, hlh, rfl, hkeys, hkeep, hmerged, hord⟩
    | scalar _ _ => simp [recordMatches] at hlh
    | seq _ _ => simp [recordMatches] at hlh
    | set _ _ => simp [recordMatches] at hlh

/-- **lhs_only_content_preserved** (Array-of-Hashes, DEEP): a left-hand element whose identity no
right-hand record carries keeps its value **and its position**; the left-hand list is a positional
prefix of the result (`litems.length ≤ out.length`), and at most one element per right-hand record
is added. -/
theorem aoh_deep_lhs_only_preserved (env : Env) (idKey : Key) (litems ritems out : List Node)
    (h : AohDeep env idKey litems ritems out) :
    (∀ (i : Nat) (x : Node), litems[i]? = some x →
        (∀ a es idv, Node.map a es ∈ ritems → lookupKey idKey es = some idv →
          recordMatches env idKey (typedNode env idv) x = false) →
        out[i]? = some x) ∧
    litems.length ≤ out.length ∧ out.length ≤ litems.length + ritems.length :=
  ⟨fun i x hx hno => AohDeep_keeps h i x hx hno, AohDeep_length h⟩

/-- **hash_deep_keys** for Array-of-Hashes DEEP (nothing is lost, at key level): every left-hand
element is still at its position, either unchanged or — a Hash — grown to a Hash with at least its
keys (`Spec.KeysGrow`); and every right-hand record's keys are all present in some Hash of the
result (the record itself where it was appended, or the element it was merged into, possibly grown
further by later records). -/
theorem aoh_deep_keys (env : Env) (idKey : Key) (litems ritems out : List Node)
    (h : AohDeep env idKey litems ritems out) :
    (∀ (i : Nat) (x : Node), litems[i]? = some x → ∃ y, out[i]? = some y ∧ KeysGrow x y) ∧
    (∀ a es, Node.map a es ∈ ritems →
      ∃ y ∈ out, ∃ a' es', y = .map a' es' ∧ ∀ k ∈ keys es, k ∈ keys es') :=
  AohDeep_grows h

/-! ## Witnesses: the hypotheses are met by concrete values, and the interleaving of the design note -/

def i (n : Int) : Node := .scalar none (.int n)
def sk (s : String) : Key := .str s.toList

/-- `{a,b,c} ⊕ {x,b,y,c,z}` gives `a,x,b,c,y,z` (buffered right-only keys are inserted at the shared
key's right-hand index, clamped). -/
example : (mergeWith {} (.map none [(sk "a", i 1), (sk "b", i 2), (sk "c", i 3)])
    (.map none [(sk "x", i 1), (sk "b", i 2), (sk "y", i 1), (sk "c", i 3), (sk "z", i 1)])).map
      (fun n => match n with | .map _ es => es.map (·.1) | _ => [])
    = .ok [sk "a", sk "x", sk "b", sk "c", sk "y", sk "z"] := by decide +kernel

/-- `a: 5 ⊕ a: []` is a merge error (fix C05-1), not the `AttributeError` of the pinned code. -/
example : mergeWith {} (.map none [(sk "a", i 5)]) (.map none [(sk "a", .seq none [])]) = .error .merge := by
  decide +kernel

/-- arrays=unique: `[1,2] ⊕ [3,3] = [1,2,3]` (fix C05-3). -/
example : mergeWith { arrayCli := some .unique } (.seq none [i 1, i 2]) (.seq none [i 3, i 3])
    = .ok (.seq none [i 1, i 2, i 3]) := by decide +kernel

/-- the AoH option does not leak onto scalars (fix C05-2): `a: 1 ⊕ a: 2` under aoh=left is `a: 2`. -/
example : mergeWith { aohCli := some .left } (.map none [(sk "a", i 1)]) (.map none [(sk "a", i 2)])
    = .ok (.map none [(sk "a", i 2)]) := by decide +kernel

/-- a rule for the node wins over the command-line value. -/
example : mergeWith { hashCli := some .deep, rules := [([.key (sk "a")], .left)] }
    (.map none [(sk "a", .map none [(sk "x", i 1)])]) (.map none [(sk "a", .map none [(sk "y", i 2)])])
    = .ok (.map none [(sk "a", .map none [(sk "x", i 1)])]) := by decide +kernel

/-- The hypotheses of `merge_order_ok` / `merge_content_eq_spec` are met by a merge that exercises
every constructor of `Spec.Merged` but LEFT: `{a: {x: 1}, c: 3} ⊕ {d: 4, a: {y: 2}, c: 5}` is
`{a: {x: 1, y: 2}, d: 4, c: 5}` (recursive merge under `a`, right-only `d` placed at `a`'s
right-hand index, right-hand scalar under `c`), and the right-hand keys have no duplicates. -/
example :
    let r := [(sk "d", i 4), (sk "a", .map none [(sk "y", i 2)]), (sk "c", i 5)]
    mergeDicts (prepare {} (.map none r)) (.map none [(sk "a", .map none [(sk "x", i 1)]), (sk "c", i 3)])
        (.map none r) r
      = .ok (.map none [(sk "a", .map none [(sk "x", i 1), (sk "y", i 2)]), (sk "d", i 4), (sk "c", i 5)]) ∧
    (keys r).Nodup := by
  decide +kernel

/-- hashes=left under a shared key: `Spec.Merged.keepLeft`. -/
example : mergeWith { rules := [([.key (sk "a")], .left)] }
    (.map none [(sk "a", .map none [(sk "x", i 1)])]) (.map none [(sk "a", .map none [(sk "y", i 2)]), (sk "b", i 1)])
    = .ok (.map none [(sk "a", .map none [(sk "x", i 1)]), (sk "b", i 1)]) := by decide +kernel

/-- aoh=deep: `[{id: 1, v: 1}, {id: 2, v: 2}] ⊕ [{id: 2, w: 9}, {id: 3}]` — the record with identity 2
is merged in place (`Spec.AohStep.merge`), identity 3 is appended (`Spec.AohStep.append`), identity 1
(named by no right-hand record) keeps its value and position. -/
example : mergeWith { aohCli := some .deep }
    (.seq none [.map none [(sk "id", i 1), (sk "v", i 1)], .map none [(sk "id", i 2), (sk "v", i 2)]])
    (.seq none [.map none [(sk "id", i 2), (sk "w", i 9)], .map none [(sk "id", i 3)]])
    = .ok (.seq none [.map none [(sk "id", i 1), (sk "v", i 1)],
        .map none [(sk "id", i 2), (sk "v", i 2), (sk "w", i 9)], .map none [(sk "id", i 3)]]) := by
  decide +kernel

/-- aoh=deep: a right-hand record without the identity key is a merge error. -/
example : mergeWith { aohCli := some .deep } (.seq none [.map none [(sk "id", i 1)]])
    (.seq none [.map none [(sk "id", i 1)], .map none [(sk "x", i 3)]]) = .error .merge := by
  decide +kernel

end Ypv.C05
