/-! C05 — property theorems (stub; no obligations yet) -/
