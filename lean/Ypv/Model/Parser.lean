import Ypv.Model.Path
import Ypv.Model.Py
/-!
# Model of `yamlpath.YAMLPath._parse_path` / `_expand_splats` as a character state machine

Branch order and guards are those of `yamlpath/yamlpath.py` (`_parse_path`).  The dispatcher
`stepCore` only selects a handler; each handler is one Python branch.

Errors: `PErr.ypath code` is the library's `YAMLPathException` family (the code identifies the
raise site); `PErr.crash code` is any *other* Python exception:
* `crash 1` — `demarc_stack[-1]` on an empty stack inside the regex-capture branch,
* `crash 2` — `demarc_stack.pop()` on an empty stack in the nested-`]` branch (guarded since
  the fix commit 45a7ae9 by `demarc_count < 1` ⇒ `ypath 13`).
-/
namespace Ypv

inductive PErr
  | ypath (code : Nat)
  | crash (code : Nat)
  deriving DecidableEq, Repr, Inhabited

def PErr.isCrash : PErr → Bool
  | .crash _ => true
  | .ypath _ => false

/-- The local variables of `_parse_path`. `segs` is reversed (head = last appended). -/
structure PState where
  segs : List Seg := []
  segId : Str := []
  segType : Option SegType := none
  stack : List Char := []          -- `demarc_stack`, head = top
  count : Nat := 0                 -- the `demarc_count` local (re-set from the stack at each char)
  escapeNext : Bool := false
  searchInverted : Bool := false
  searchMethod : Option Method := none
  searchAttr : Str := []
  searchKeyword : Option Keyword := none
  seekingRegexDelim : Bool := false
  capturingRegex : Bool := false
  collectorLevel : Nat := 0
  collectorOp : CollOp := .none
  seekingCollectorOp : Bool := false
  nextCharMustBe : Option Char := none
  seekingAnchorMark : Bool := false
  deriving Repr, Inhabited, DecidableEq

/-- `_expand_splats`: the multi-wildcard loop. -/
def splatLoop : Str → (wasSplat : Bool) → (acc : Str) → Except PErr Str
  | [], _, acc => .ok acc
  | c :: rest, wasSplat, acc =>
    if c = '*' then
      if wasSplat then .error (.ypath 20) else splatLoop rest true (acc ++ ['.', '*'])
    else splatLoop rest false (acc ++ [c])

/-- `_expand_splats` -/
def expandSplats (segId : Str) (ty : SegType) : Except PErr Seg :=
  let n := segId.count '*'
  if n = 0 then .ok (ty, .str segId)
  else
    let len := segId.length
    let pos := segId.idxOf '*'
    if n = 1 then
      if len = 1 then .ok (.matchAll, .none)
      else if pos = 0 then .ok (.search, .search false .endsWith ['.'] (segId.drop 1))
      else if pos = len - 1 then .ok (.search, .search false .startsWith ['.'] (segId.take pos))
      else .ok (.search, .search false .regex ['.']
        (['^'] ++ segId.take pos ++ ['.', '*'] ++ segId.drop (pos + 1) ++ ['$']))
    else if n = 2 ∧ len = 2 then .ok (.traverse, .none)
    else
      match splatLoop segId false ['^'] with
      | .error e => .error e
      | .ok t => .ok (.search, .search false .regex ['.'] (t ++ ['$']))

inductive StepOut
  | cont (st : PState)       -- Python `continue`
  | fall (st : PState)       -- falls through to `segment_id += char`
  | err (e : PErr)
  deriving Repr, Inhabited

def keyType (t : Option SegType) : SegType := t.getD .key

def isOp (c : Char) : Bool :=
  c = '=' || c = '^' || c = '$' || c = '%' || c = '!' || c = '>' || c = '<' || c = '~'

/-- `demarc_stack.pop(); demarc_count -= 1` -/
def PState.pop (st : PState) : PState := { st with stack := st.stack.tail, count := st.count - 1 }
/-- `demarc_stack.append(c); demarc_count += 1` -/
def PState.push (st : PState) (c : Char) : PState :=
  { st with stack := c :: st.stack, count := st.count + 1 }

/-- `capturing_regex` branch -/
def hRegex (st : PState) (c : Char) : StepOut :=
  match st.stack with
  | [] => .err (.crash 1)
  | top :: rest =>
    if c = top then .cont { st with capturingRegex := false, stack := rest }
    else .fall st

/-- nested `]` branch: guarded by `demarc_count < 1` (fix commit 45a7ae9); the `crash 2`
arm is `demarc_stack.pop()` on an empty list, unreachable because `count = stack.length` here -/
def hCloseNested (st : PState) : StepOut :=
  if st.count < 1 then .err (.ypath 13)
  else match st.stack with
    | [] => .err (.crash 2)
    | _ :: _ => .fall st.pop

/-- top of the loop body: `demarc_count = len(demarc_stack)` and the `next_char_must_be` reset -/
def pre0 (st0 : PState) (c : Char) : PState :=
  let st := { st0 with count := st0.stack.length }
  if st.nextCharMustBe = some c then { st with nextCharMustBe := none } else st

/-- quote branch -/
def hQuote (st : PState) (c : Char) : StepOut :=
  if st.count > 0 then
    if st.stack.head? = some c then
      let st := st.pop
      if st.count < 1 then
        let st := if st.segId ≠ [] then
            { st with segs := (keyType st.segType, .str st.segId) :: st.segs } else st
        .cont { st with segId := [], segType := none }
      else .fall st
    else .fall (st.push c)
  else .cont (st.push c)

/-- "record the predecessor element" -/
def flushSeg (st : PState) : Except PErr PState :=
  if st.segId ≠ [] then
    match expandSplats st.segId (keyType st.segType) with
    | .ok sg => .ok { st with segs := sg :: st.segs, segId := [] }
    | .error e => .error e
  else .ok st

/-- `(` branch (the collector arm also ends the search for an anchor mark: /repo 5554362) -/
def hOpenParen (st : PState) (c : Char) : StepOut :=
  if st.count = 1 ∧ st.stack.head? = some '[' ∧ st.segId ≠ [] then
    match keywordOf? st.segId with
    | some kw =>
      .cont ({ st with segType := some .keywordSearch, searchKeyword := some kw, segId := [] }.push c)
    | none => .err (.ypath 2)
  else
    match (if st.collectorLevel = 0 then flushSeg st else .ok st) with
    | .error e => .err e
    | .ok st =>
      let st := ({ st with seekingCollectorOp := false, seekingAnchorMark := false,
                           collectorLevel := st.collectorLevel + 1 }.push c)
      let st := { st with segType := some .collector }
      if st.collectorLevel = 1 then .cont st else .fall st

/-- `)` closing a keyword-search parameter list -/
def hCloseKeyword (st : PState) : StepOut :=
  .cont { st.pop with nextCharMustBe := some ']', seekingCollectorOp := false }

/-- `)` closing a collector -/
def hCloseColl (st : PState) : StepOut :=
  let st := { st.pop with collectorLevel := st.collectorLevel - 1 }
  if st.collectorLevel < 1 then
    .cont { st with
      segs := (st.segType.getD .collector, .collector st.segId st.collectorOp) :: st.segs,
      segId := [], collectorOp := .none, seekingCollectorOp := true }
  else .fall st

/-- top-level `[` -/
def hOpenBracket (st : PState) (c : Char) : StepOut :=
  match flushSeg st with
  | .error e => .err e
  | .ok st =>
    .cont ({ st with segType := some .index, seekingCollectorOp := false, seekingAnchorMark := true,
                     searchInverted := false, searchMethod := none, searchAttr := [] }.push c)

/-- search operator characters directly inside `[ ]` -/
def hOperator (st : PState) (c : Char) : StepOut :=
  if c = '!' then
    if st.searchInverted then .err (.ypath 3) else .cont { st with searchInverted := true }
  else if c = '=' then
    let st := { st with segType := some .search }
    match st.searchMethod with
    | some .lt => .cont { st with searchMethod := some .le }
    | some .gt => .cont { st with searchMethod := some .ge }
    | some .equals => .cont st
    | none =>
      if st.segId ≠ [] then
        .cont { st with searchMethod := some .equals, searchAttr := st.segId, segId := [] }
      else .err (.ypath 4)
    | some _ => .err (.ypath 5)
  else if c = '~' then
    if st.searchMethod = some .equals then
      .cont { st with searchMethod := some .regex, seekingRegexDelim := true }
    else .err (.ypath 6)
  else if st.segId = [] then .err (.ypath 7)
  else
    let m : Method := if c = '^' then .startsWith else if c = '$' then .endsWith
      else if c = '%' then .contains else if c = '>' then .gt else .lt
    .cont { st with segType := some .search, searchMethod := some m,
                    searchAttr := st.segId, segId := [] }

/-- "undemarcate the search term" -/
def undemarcate (cs : Str) : Str :=
  match cs with
  | q :: _ => if (q = '\'' ∨ q = '"') ∧ cs.getLast? = some q then (cs.drop 1).dropLast else cs
  | [] => cs

/-- the segment stored by the closing top-level `]` -/
def closeSeg (st : PState) : Except PErr Seg :=
  if st.segType = some .index ∧ ¬ st.segId.contains ':' then
    match pyInt? st.segId with
    | some i => .ok (.index, .int i)
    | none => .error (.ypath 8)
  else if st.segType = some .search ∧ st.searchMethod.isSome then
    .ok (.search, .search st.searchInverted (st.searchMethod.getD .equals) st.searchAttr
          (undemarcate st.segId))
  else if st.segType = some .keywordSearch ∧ st.searchKeyword.isSome then
    .ok (.keywordSearch, .keyword st.searchInverted (st.searchKeyword.getD .name) st.segId)
  else .ok (st.segType.getD .key, .str st.segId)

/-- closing top-level `]` -/
def hCloseBracket (st : PState) : StepOut :=
  match closeSeg st with
  | .error e => .err e
  | .ok sg =>
    .cont { st.pop with segs := sg :: st.segs, segId := [], segType := none,
                        searchMethod := none, searchInverted := false, searchKeyword := none }

/-- path separator outside all demarcation -/
def hSep (st : PState) : StepOut :=
  match flushSeg st with
  | .error e => .err e
  | .ok st => .cont { st with segType := none, seekingAnchorMark := true }

def collOpOf (c : Char) : CollOp := if c = '+' then .add else if c = '-' then .sub else .inter

/-- `escape_next` branch: pass-through -/
def hEscaped (st : PState) : StepOut := .fall { st with escapeNext := false }

/-- backslash branch -/
def hBackslash (strip : Bool) (st : PState) : StepOut :=
  if strip then .cont { st with escapeNext := true } else .fall { st with escapeNext := true }

/-- the first non-space symbol after `=~` is the regex delimiter -/
def hRegexDelim (st : PState) (c : Char) : StepOut :=
  .cont ({ st with seekingRegexDelim := false, capturingRegex := true }.push c)

/-- a permissible `&` anchor mark -/
def hAnchorMark (st : PState) : StepOut :=
  .cont { st with seekingAnchorMark := false, segType := some .anchor }

/-- collector operator between collectors -/
def hCollOp (st : PState) (c : Char) : StepOut :=
  .cont { st with seekingCollectorOp := false, nextCharMustBe := some '(',
                  collectorOp := collOpOf c }

/-- nested `[` -/
def hOpenNested (st : PState) (c : Char) : StepOut := .fall (st.push c)

/-- The `if / elif` chain of the loop body (after the two statements of `pre0`): conditions
in the Python's order, each selecting one handler. -/
def dispatch (sep : Char) (strip : Bool) (st : PState) (c : Char) : StepOut :=
  if st.escapeNext then hEscaped st
  else if st.capturingRegex then hRegex st c
  else if c = '\\' then hBackslash strip st
  else if c = ' ' ∧ (st.count < 1 ∨ ¬ (st.stack.head? = some '\'' ∨ st.stack.head? = some '"')) then
    .cont st
  else if st.seekingRegexDelim then hRegexDelim st c
  else if st.seekingAnchorMark ∧ c = '&' then hAnchorMark st
  else if st.seekingCollectorOp ∧ (c = '+' ∨ c = '-' ∨ c = '&') then hCollOp st c
  else if st.nextCharMustBe.isSome ∧ st.nextCharMustBe ≠ some c then .err (.ypath 1)
  else if c = '"' ∨ c = '\'' then hQuote st c
  else if c = '(' then hOpenParen st c
  else if st.count > 0 ∧ c = ')' ∧ st.segType = some .keywordSearch then hCloseKeyword st
  else if st.count > 0 ∧ c = ')' ∧ st.stack.head? = some '(' ∧ st.collectorLevel > 0 then
    hCloseColl st
  else if st.count = 0 ∧ c = '[' then hOpenBracket st c
  else if st.count = 1 ∧ st.stack.head? = some '[' ∧ isOp c then hOperator st c
  else if c = '[' then hOpenNested st c
  else if st.count = 1 ∧ c = ']' ∧ st.stack.head? = some '[' then hCloseBracket st
  else if c = ']' then hCloseNested st
  else if st.count < 1 ∧ c = sep then hSep st
  else .fall st

/-- The loop body up to (not including) the trailing `segment_id += char`. -/
def stepCore (sep : Char) (strip : Bool) (st0 : PState) (c : Char) : StepOut :=
  dispatch sep strip (pre0 st0 c) c

/-- `segment_id += char; seeking_anchor_mark = False; seeking_collector_operator = False` -/
def PState.append (st : PState) (c : Char) : PState :=
  { st with segId := st.segId ++ [c], seekingAnchorMark := false, seekingCollectorOp := false }

/-- One iteration of the `for char in yaml_path` loop. -/
def step (sep : Char) (strip : Bool) (st : PState) (c : Char) : Except PErr PState :=
  match stepCore sep strip st c with
  | .err e => .error e
  | .cont st => .ok st
  | .fall st => .ok (st.append c)

/-- The whole loop. -/
def run (sep : Char) (strip : Bool) : PState → List Char → Except PErr PState
  | st, [] => .ok st
  | st, c :: cs => match step sep strip st c with
    | .error e => .error e
    | .ok st' => run sep strip st' cs

/-- The checks after the loop and the final segment. `demarc_count` there is the value
left by the last iteration. -/
def finish (st : PState) : Except PErr (List Seg) :=
  if st.collectorLevel > 0 then .error (.ypath 10)
  else if st.capturingRegex then .error (.ypath 11)
  else if st.count > 0 then .error (.ypath 12)
  else if st.segId ≠ [] then
    match expandSplats st.segId (keyType st.segType) with
    | .ok sg => .ok (sg :: st.segs).reverse
    | .error e => .error e
  else .ok st.segs.reverse

/-- `original` setter: a text of blanks only is the empty path. `str.strip()` with no
argument strips Python white space. -/
def normOriginal (t : Str) : Str := if t.all isPyWs then [] else t

/-- `_parse_path(strip)` of a path text whose separator is `/` (`fslash`) or `.`. -/
def parseWith (fslash : Bool) (strip : Bool) (path : Str) : Except PErr (List Seg) :=
  let cs := normOriginal path
  if cs = [] then .ok []
  else
    let sep := if fslash then '/' else '.'
    let firstAnchorPos := if fslash ∧ cs.length > 1 then 1 else 0
    let st : PState := { seekingAnchorMark := cs[firstAnchorPos]? = some '&' }
    match run sep strip st cs with
    | .error e => .error e
    | .ok st => finish st

/-- `PathSeparators.infer_separator` -/
def inferFslash (path : Str) : Bool := (normOriginal path).head? = some '/'

/-- `YAMLPath(text).escaped` / `.unescaped` with the separator inferred. -/
def parse (strip : Bool) (path : Str) : Except PErr (List Seg) :=
  parseWith (inferFslash path) strip path

end Ypv
