import Ypv.Model.MergeConfig
/-!
# `Merger.merge_with` at the document root (`yamlpath/merger/merger.py`)

Branch-for-branch model of `merge_with`, `_insert_dict/_list/_set/_scalar`, `_merge_dicts` (with
its insertion buffer and `buffer_pos`), `_merge_lists`, `_merge_simple_lists`,
`_merge_arrays_of_hashes`, `_merge_sets` — as the code stands after the proposed fixes
`fixes/C05-1 … C05-5` (see `notes/C05.md`).  Values are immutable: a merge returns the new
left-hand document.  Anchors, tags, comments and flow style are not modelled.

Places where the Python would raise something other than `MergeException` if a guard were missing
are explicit `crash` outcomes (`tagOf`, `recordGet`, `setAdd`), so that "a merge never crashes" is a
theorem about reachable outcomes (`Props/C05.lean`), not a consequence of the result type.
-/
namespace Ypv.Merge

def isMap : Node → Bool
  | .map .. => true
  | _ => false
def isSeq : Node → Bool
  | .seq .. => true
  | _ => false
def isSet : Node → Bool
  | .set .. => true
  | _ => false

/-- `isinstance(val, CommentedSeq) and len(val) > 0 and isinstance(val[0], CommentedMap)` -/
def isAoh : Node → Bool
  | .seq _ (.map .. :: _) => true
  | _ => false

def keyScalar : Key → Scalar
  | .str s => .str s
  | .int i => .int i

/-- A scalar usable as a set member / mapping key in the model. -/
def scalarKey? : Scalar → Option Key
  | .str s => some (.str s)
  | .int i => some (.int i)
  | _ => none

/-- `x.tag` — ruamel containers have a tag attribute, plain Python scalars do not
(`AttributeError`).  The tag synchronisation after a merge reads it from the merged value. -/
def tagOf (n : Node) : Except MErr Unit :=
  match n with
  | .scalar .. => .error (.crash .attributeError)
  | _ => .ok ()

/-- `Nodes.tagless_value` = `Nodes.typed_value` of a record's identity value: texts go through
`ast.literal_eval` (the `tv` parameter), everything else is returned as it is. -/
def typedNode (env : Env) : Node → Node
  | .scalar a (.str s) => .scalar a (env.cfg.tv s)
  | n => n

/-- `id_key in ele` followed by `ele[id_key]`: on a mapping the value or `none`;
on an `int` element `TypeError` (argument of type 'int' is not iterable). -/
def recordGet (ele : Node) (k : Key) : Except MErr (Option Node) :=
  match ele with
  | .map _ es => .ok (lookupKey k es)
  | _ => .error (.crash .typeError)

/-- `CommentedSet.add` of an Array element: containers are unhashable (`TypeError`);
scalars other than text and integers are outside the model's sets. -/
def setAdd (ms : List Key) (ele : Node) : Except MErr (List Key) :=
  match ele with
  | .scalar _ v =>
    match scalarKey? v with
    | some k => .ok (if ms.contains k then ms else ms ++ [k])
    | none => .error .outOfModel
  | _ => .error (.crash .typeError)

/-- `CommentedMap.insert(pos, key, value)`: before position `pos`, at the end when `pos ≥ len`. -/
def insertAt (pos : Nat) (kv : Key × Node) (es : List (Key × Node)) : List (Key × Node) :=
  es.take pos ++ kv :: es.drop pos

/-- `lhs[key] = val` for a key that is present: the position is kept. -/
def setKey (k : Key) (v : Node) : List (Key × Node) → List (Key × Node)
  | [] => []
  | (k', v') :: rest => if k' = k then (k', v) :: rest else (k', v') :: setKey k v rest

/-- State of the `_merge_dicts` loop: the left-hand entries, the buffered right-only pairs,
`buffer_pos`. -/
structure DState where
  entries : List (Key × Node)
  buffer : List (Key × Node)
  pos : Nat

/-- "Write the buffer if populated": each buffered pair is inserted at `buffer_pos`, which moves on
by one per insertion. -/
def flush (st : DState) : DState :=
  { entries := (st.buffer.foldl (fun (acc : List (Key × Node) × Nat) kv =>
        (insertAt acc.2 kv acc.1, acc.2 + 1)) (st.entries, st.pos)).1
    buffer := []
    pos := st.pos + st.buffer.length }

/-- What `_merge_dicts` decides for a key present on both sides before any deep merge. -/
inductive Short | keepLeft | takeRight | goDeep
  deriving DecidableEq, Repr

/-- The short-circuit of `_merge_dicts`: the mode of the right-hand value's own kind
(hash / set / array-of-hashes), or for any other value only a rule registered for that node. -/
def shortCircuit (env : Env) (c : Coords) : Except MErr Short :=
  if isMap c.node then
    (hashMode env c).map (fun m => match m with
      | .left => .keepLeft | .right => .takeRight | .deep => .goDeep)
  else if isSet c.node then
    (setMode env c).map (fun m => match m with
      | .left => .keepLeft | .right => .takeRight | .unique => .goDeep)
  else if isAoh c.node then
    (aohMode env c).map (fun m => match m with
      | .left => .keepLeft | .right => .takeRight | _ => .goDeep)
  else
    (nodeRule env c).map (fun m => match m with
      | some .left => .keepLeft | some .right => .takeRight | _ => .goDeep)

/-- `_merge_sets` after the mode check: members of the right-hand set that the left-hand set (as it
was on entry) lacks are added. -/
def setUnion (l r : List Key) : List Key :=
  r.foldl (fun acc k => if l.contains k then acc else if acc.contains k then acc else acc ++ [k]) l

/-- `_merge_sets` -/
def mergeSets (env : Env) (lv : Node) (ra : Option Str) (rms : List Key) (c : Coords) :
    Except MErr Node :=
  match lv with
  | .set la lms =>
    match setMode env c with
    | .error e => .error e
    | .ok .left => .ok lv
    | .ok .right => .ok (.set ra rms)
    | .ok .unique => .ok (.set la (setUnion lms rms))
  | _ => .error .merge

/-- One element of the right-hand list under `ArrayMergeOpts.UNIQUE`: `(lhs, tagless_lhs)`. -/
def uniqueStep (st : List Node × List Node) (ele : Node) : List Node × List Node :=
  if st.2.any (fun t => pyEq t ele) then
    (st.1.map (fun e => if pyEq e ele then ele else e), st.2)
  else
    (st.1 ++ [ele], st.2 ++ [ele])

/-- `_merge_simple_lists` -/
def mergeSimple (env : Env) (lv : Node) (ra : Option Str) (ritems : List Node) (c : Coords) :
    Except MErr Node :=
  match lv with
  | .seq la litems =>
    match arrayMode env c with
    | .error e => .error e
    | .ok .left => .ok lv
    | .ok .right => .ok (.seq ra ritems)
    | .ok .all => .ok (.seq la (litems ++ ritems))
    | .ok .unique => .ok (.seq la (ritems.foldl uniqueStep (litems, litems)).1)
  | _ => .error .merge

/-- Does this left-hand element carry the identity `idVal` under `idKey`? -/
def recordMatches (env : Env) (idKey : Key) (idVal : Node) (lh : Node) : Bool :=
  match lh with
  | .map _ es =>
    match lookupKey idKey es with
    | some v => pyEq (typedNode env v) idVal
    | none => false
  | _ => false

/-- Replace the first element satisfying `p` by `f` of it. -/
def replaceFirst (p : Node → Bool) (new : Node) : List Node → List Node
  | [] => []
  | x :: xs => if p x then new :: xs else x :: replaceFirst p new xs

/-- One right-hand record under `AoHMergeOpts.UNIQUE`: appended unless an equal element is already
in the (growing) left-hand list. -/
def aohUniqueStep (acc : List Node) (ele : Node) : List Node :=
  if acc.any (fun e => pyEq e ele) then acc else acc ++ [ele]

/-- The frame of `_merge_dicts(lhs, rhs)` around its loop: the destination must be a Hash; the
loop starts with an empty buffer at position 0; what is still buffered at the end is appended. -/
def dictWrap (lv : Node) (loop : DState → Except MErr DState) : Except MErr Node :=
  match lv with
  | .map la les =>
    match loop ⟨les, [], 0⟩ with
    | .error e => .error e
    | .ok st => .ok (.map la (st.entries ++ st.buffer))
  | _ => .error .merge

/-- "Synchronize any YAML Tag" after a nested merge: `lhs[key].tag` is read from the merged value. -/
def syncTag (res : Except MErr Node) : Except MErr Node :=
  match res with
  | .error e => .error e
  | .ok m =>
    match tagOf m with
    | .error e => .error e
    | .ok _ => .ok m

mutual
/-- The deep merge of the right-hand value `val` (found under a key present on both sides, or at
the root) into the left-hand value `lv`.  `c` are `val`'s coordinates. -/
def mergeVal (env : Env) (lv : Node) (c : Coords) : (val : Node) → Except MErr Node
  | .map _ res => syncTag (dictWrap lv (dictLoop env (.map none res) res))
  | .seq ra ritems => syncTag (mergeLists env lv ra ritems c)
  | .set ra rms => syncTag (mergeSets env lv ra rms c)
  | .scalar a v => .ok (.scalar a v)
termination_by structural val => val

/-- The `for key, val in rhs.non_merged_items()` loop of `_merge_dicts`. -/
def dictLoop (env : Env) (par : Node) : (res : List (Key × Node)) → DState → Except MErr DState
  | [], st => .ok st
  | (k, val) :: rest, st =>
    match lookupKey k st.entries with
    | none =>
      -- LHS lacks the RHS key: buffer it
      dictLoop env par rest { st with buffer := st.buffer ++ [(k, val)], pos := st.pos + 1 }
    | some lv =>
      let st1 := flush st
      match shortCircuit env ⟨val, some par, some (.key k)⟩ with
      | .error e => .error e
      | .ok .keepLeft => dictLoop env par rest st1          -- `continue`: buffer_pos not advanced
      | .ok .takeRight =>
        dictLoop env par rest { st1 with entries := setKey k val st1.entries }
      | .ok .goDeep =>
        match mergeVal env lv ⟨val, some par, some (.key k)⟩ val with
        | .error e => .error e
        | .ok m =>
          dictLoop env par rest { st1 with entries := setKey k m st1.entries, pos := st1.pos + 1 }
termination_by structural res => res

/-- `_merge_lists`: `_merge_arrays_of_hashes` when the first right-hand element is a Hash,
`_merge_simple_lists` when there is a first element, nothing to add otherwise (fix C05-1: the
destination must still be an Array). -/
def mergeLists (env : Env) (lv : Node) (ra : Option Str) : (ritems : List Node) → Coords →
    Except MErr Node
  | [], _ => if isSeq lv then .ok lv else .error .merge
  | .map fa fes :: rrest, c =>
    match lv with
    | .seq la litems =>
      let ritems := Node.map fa fes :: rrest
      let idKey := aohMergeKey env ⟨.map fa fes, some (.seq ra ritems), some (.idx 0)⟩ fes
      match aohMode env c with
      | .error e => .error e
      | .ok .left => .ok lv                                  -- fix C05-5
      | .ok .right => .ok (.seq ra ritems)                   -- fix C05-5
      | .ok .all => .ok (.seq la (litems ++ ritems))
      | .ok .unique => .ok (.seq la (ritems.foldl aohUniqueStep litems))
      | .ok .deep =>
        match aohDeepStep env idKey litems (.map fa fes) with
        | .error e => .error e
        | .ok l1 =>
          match aohDeepLoop env idKey rrest l1 with
          | .error e => .error e
          | .ok l2 => .ok (.seq la l2)
    | _ => .error .merge
  | first :: rrest, c => mergeSimple env lv ra (first :: rrest) c
termination_by structural ritems => ritems

/-- The DEEP loop of `_merge_arrays_of_hashes` over the right-hand elements after the first. -/
def aohDeepLoop (env : Env) (idKey : Key) : (eles : List Node) → List Node → Except MErr (List Node)
  | [], litems => .ok litems
  | ele :: rest, litems =>
    match aohDeepStep env idKey litems ele with
    | .error e => .error e
    | .ok l1 => aohDeepLoop env idKey rest l1
termination_by structural eles => eles

/-- One right-hand element under DEEP: a record is merged into the first left-hand record with the
same identity, appended when there is none; an error without the identity key, and (fix C05-1) for
an element that is not a Hash. -/
def aohDeepStep (env : Env) (idKey : Key) (litems : List Node) : (ele : Node) → Except MErr (List Node)
  | .map a es =>
    match recordGet (.map a es) idKey with
    | .error e => .error e
    | .ok none => .error .merge
    | .ok (some idv) =>
      let idVal := typedNode env idv
      match litems.find? (recordMatches env idKey idVal) with
      | none => .ok (litems ++ [.map a es])
      | some lh =>
        match dictWrap lh (dictLoop env (.map a es) es) with
        | .error e => .error e
        | .ok m => .ok (replaceFirst (recordMatches env idKey idVal) m litems)
  | _ => .error .merge
termination_by structural ele => ele
end

/-- `_merge_dicts(lhs, rhs)`: `par` is the right-hand mapping itself (the `parent` of the
coordinates used for rule lookups), `res` its entries. -/
def mergeDicts (env : Env) (lv : Node) (par : Node) (res : List (Key × Node)) : Except MErr Node :=
  dictWrap lv (dictLoop env par res)

/-- `_insert_list` for a Set destination: every Array element becomes a member of a new set
(fix C05-1: containers are refused with a merge error before anything is added). -/
def listToSet : List Node → List Key → Except MErr (List Key)
  | [], acc => .ok acc
  | ele :: rest, acc =>
    match ele with
    | .scalar .. =>
      match setAdd acc ele with
      | .error e => .error e
      | .ok acc' => listToSet rest acc'
    | _ => .error .merge

/-- `_insert_dict` -/
def insertDict (env : Env) (l : Node) (ra : Option Str) (res : List (Key × Node)) :
    Except MErr Node :=
  let r := Node.map ra res
  match l with
  | .seq .. => mergeLists env l none [r] ⟨.seq none [r], none, none⟩
  | .set .. => .error .merge
  | .scalar .. => .error .merge                              -- fix C05-1
  | .map .. =>
    match hashMode env ⟨r, none, none⟩ with
    | .error e => .error e
    | .ok .left => .ok l
    | .ok .right => .ok r
    | .ok .deep => mergeDicts env l r res

/-- `_insert_list` -/
def insertList (env : Env) (l : Node) (ra : Option Str) (ritems : List Node) : Except MErr Node :=
  let r := Node.seq ra ritems
  match l with
  | .seq .. => mergeLists env l ra ritems ⟨r, none, none⟩
  | .set .. =>
    match listToSet ritems [] with
    | .error e => .error e
    | .ok ms => mergeSets env l none ms ⟨r, none, none⟩
  | _ => .error .merge

/-- `_insert_set` -/
def insertSet (env : Env) (l : Node) (ra : Option Str) (rms : List Key) : Except MErr Node :=
  let r := Node.set ra rms
  match l with
  | .seq .. =>
    let items := rms.map (fun k => Node.scalar none (keyScalar k))
    mergeLists env l none items ⟨.seq none items, none, none⟩
  | .map .. =>
    let es := rms.map (fun k => (k, Node.scalar none .null))
    mergeDicts env l (.map none es) es
  | _ => mergeSets env l ra rms ⟨r, none, none⟩

/-- `_insert_scalar` (fix C05-4: a Scalar root is replaced by the right-hand Scalar). -/
def insertScalar (env : Env) (l : Node) (ra : Option Str) (v : Scalar) : Except MErr Node :=
  let r := Node.scalar ra v
  match l with
  | .seq la litems => .ok (.seq la (litems ++ [r]))
  | .set la lms =>
    match scalarKey? v with
    | none => .error .outOfModel
    | some k =>
      -- `self._merge_sets(lhs, CommentedSet([rhs]), …)`: the returned set is dropped, so only
      -- UNIQUE (which adds in place) changes the document
      match setMode env ⟨r, none, none⟩ with
      | .error e => .error e
      | .ok .left => .ok l
      | .ok .right => .ok l
      | .ok .unique => .ok (.set la (setUnion lms [k]))
  | .map .. => .error .merge
  | .scalar .. => .ok r

/-- After `_insert_dict/_list/_set`: "Synchronize any YAML Tag" reads `lhs.tag`. -/
def rootTagSync (l : Node) (res : Except MErr Node) : Except MErr Node :=
  match res with
  | .error e => .error e
  | .ok m =>
    match tagOf l with
    | .error e => .error e
    | .ok _ => .ok m

/-- `Merger.merge_with(rhs)` at the root path with `Merger.data = l`; the result is the new
`Merger.data`. -/
def mergeWith (cfg : Config) (l r : Node) : Except MErr Node :=
  match r with
  | .scalar _ .null => .ok l                     -- "Do nothing when RHS is None"
  | _ =>
    match l with
    | .scalar _ .null => .ok r                   -- LHS is an empty document: RHS is dumped into it
    | _ =>
      let env := prepare cfg r
      match r with
      | .map ra res => rootTagSync l (insertDict env l ra res)
      | .seq ra ritems => rootTagSync l (insertList env l ra ritems)
      | .set ra rms => rootTagSync l (insertSet env l ra rms)
      | .scalar ra v => insertScalar env l ra v

end Ypv.Merge
