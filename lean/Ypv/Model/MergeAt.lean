import Ypv.Model.Merge
import Ypv.Model.Edit
/-!
# A merge aimed at a YAML Path (`Merger.merge_with` with `--mergeat`; C11)

Model of `yamlpath/merger/merger.py` — `merge_with`, `_get_merge_target_nodes`, the per-target
dispatch, the write-back at the end of `_insert_dict/_list/_set/_scalar` — and of
`MergerConfig.get_insertion_point / prepare` with the `strip_path_prefix` re-basing of rule paths,
**as the code stands after the proposed fixes `fixes/C11-1 … C11-3`** (see `notes/C11.md`):

* C11-1: the merged node is written back through the target's `parent[parentref]` (the pinned code
  re-binds only the document root, so `arrays=right|unique`, `hashes=right`, `sets=right`, `aoh=right`
  at a non-root path compute a result and drop it);
* C11-2: an empty (null) left-hand document with a non-root merge path no longer returns before the
  path is created;
* C11-3: a Scalar target is overwritten at its own path, not at the (possibly multi-match) merge path.

Decoupling (as in the C03/C04 modules): what the optional query `get_nodes(insert_at,
default_value=rhs)` found is an INPUT, the `Plan` — either the addresses of the existing nodes it
matched, or, for a straight-line KEY/INDEX path, the path itself (followed and created by the C09
creation model generalised to a container leaf, `createPathN`).

Values are immutable: a merge returns the new left-hand document.  Core Lean only.
-/
namespace Ypv.MergeAt
open Ypv Ypv.Merge

/-- Outcome classes of a failed directed merge: the union of the merge family (`MErr`) and the
YAML Path family raised by the optional query (`Err`). -/
inductive AErr
  | merge
  | config
  | ypath (k : YKind)
  | crash (k : CrashKind)
  | outOfModel
  deriving DecidableEq, Repr, Inhabited

def AErr.isCrash : AErr → Bool
  | .crash _ => true
  | _ => false

def ofM : MErr → AErr
  | .merge => .merge
  | .config => .config
  | .crash k => .crash k
  | .outOfModel => .outOfModel

def ofE : Err → AErr
  | .ypath k => .ypath k
  | .merge => .merge
  | .eyaml => .outOfModel
  | .crash k => .crash k
  | .outOfModel => .outOfModel

def liftM : Except MErr Node → Except AErr Node
  | .ok n => .ok n
  | .error e => .error (ofM e)

/-! ## Writing a node back at an address (`parent[parentref] = merged_data`) -/

/-- `parent[parentref] = c'`: the child under one reference replaced (position kept). -/
def setChild (n : Node) (r : Ref) (c' : Node) : Node :=
  match n, r with
  | .seq a items, .idx i => .seq a (items.set i c')
  | .map a es, .key k => .map a (setKey k c' es)
  | n, _ => n

/-- The document in which the node at address `q` is `new` (unchanged when `q` leads nowhere). -/
def setAt (new : Node) : Node → Addr → Node
  | _, [] => new
  | n, r :: rest =>
    match n.child? r with
    | some c => setChild n r (setAt new c rest)
    | none => n

/-! ## One target -/

/-- `_insert_scalar` for a Scalar destination that is not the document root:
`lhs_proc.set_value(<the target's own path>, rhs)` with the default value format (the C03 model
`newScalar`: text that reads as a number or a boolean is re-typed — finding `scalar-rhs-retyped`). -/
def setScalar (la : Option Str) (v : Scalar) : Except AErr Node :=
  match newScalar la.isSome v .default with
  | .error e => .error (ofE e)
  | .ok s => .ok (.scalar la s)

/-- The per-target dispatch of `merge_with`: the value that replaces the target node `l` when the
right-hand document `r` is merged into it.  `isRoot`: the target is the document root. -/
def mergeTarget (env : Env) (isRoot : Bool) (l r : Node) : Except AErr Node :=
  match r with
  | .map ra res => liftM (rootTagSync l (insertDict env l ra res))
  | .seq ra ritems => liftM (rootTagSync l (insertList env l ra ritems))
  | .set ra rms => liftM (rootTagSync l (insertSet env l ra rms))
  | .scalar ra v =>
    match l with
    | .scalar la _ => if isRoot then .ok (.scalar ra v) else setScalar la v
    | _ => liftM (insertScalar env l ra v)

def isMemberRef : Ref → Bool
  | .member _ => true
  | _ => false

def hasMember (a : Addr) : Bool := a.any isMemberRef

/-- One iteration of the loop over the target nodes: merge into the node at `a`, write it back. -/
def mergeOne (env : Env) (r : Node) (d : Node) (a : Addr) : Except AErr Node :=
  if hasMember a then .error .outOfModel             -- a set member as the target
  else
    match d.get? a with
    | none => .error .outOfModel                     -- nested targets: the address is gone
    | some old =>
      match mergeTarget env a.isEmpty old r with
      | .error e => .error e
      | .ok m => .ok (setAt m d a)

/-- The loop over the target nodes, in the order the query yielded them; the first error ends it. -/
def mergeTargets (env : Env) (r : Node) : Node → List Addr → Except AErr Node
  | d, [] => .ok d
  | d, a :: rest =>
    match mergeOne env r d a with
    | .error e => .error e
    | .ok d' => mergeTargets env r d' rest

/-! ## Creation of a missing straight-line path with a document as the leaf

The C09 creation model (`Model/Edit.lean`: `createPath`, `createHere`, `fill`, `buildNext`) with
the leaf generalised from a Scalar to any node (`Nodes.wrap_type` returns a ruamel container as it
is); `fresh` says whether the relayed node was created (`target_node is rhs`).
`Lemmas/MergeAt.lean` proves that on a Scalar leaf it is the C09 model. -/

def buildNextN (rest : List PSeg) (leaf : Node) : Node :=
  match rest with
  | [] => leaf
  | .index _ :: _ => .seq none []
  | .key _ :: _ => .map none []

def fillN : List PSeg → Node → Except Err Node
  | [], leaf => .ok leaf
  | .key s :: rest, leaf => (fillN rest leaf).map (fun c => .map none [(.str s, c)])
  | .index i :: rest, leaf =>
    if i < 0 then .error (.ypath .generic)   -- "Cannot add an element before the start of a list" (fix 205ff02)
    else (fillN rest leaf).map (fun c => .seq none (List.replicate i.toNat (buildNextN rest leaf) ++ [c]))

def createHereN (n : Node) (seg : PSeg) (rest : List PSeg) (leaf : Node) : Except Err Node :=
  match n with
  | .seq a items =>
    match intOfSeg seg with
    | none => .error (.ypath .typeMismatch)
    | some i =>
      if i < 0 then .error (.ypath .generic)   -- "Cannot add an element before the start of a list" (fix 205ff02)
      else match fillN rest leaf with
        | .error e => .error e
        | .ok c => .ok (.seq a (items ++ List.replicate (i.toNat - items.length) (buildNextN rest leaf) ++ [c]))
  | .map a es =>
    match seg with
    | .key s => match fillN rest leaf with
      | .error e => .error e
      | .ok c => .ok (.map a (es ++ [(.str s, c)]))
    | .index _ => .error (.ypath .generic)
  | .set _ _ => .error .outOfModel
  | .scalar _ _ => .error (.ypath .generic)

structure CreatedN where
  doc : Node
  addr : Addr
  fresh : Bool
  deriving Inhabited

/-- The reference under which the creation block adds the missing element. -/
def newRef (n : Node) (seg : PSeg) : Ref :=
  match n with
  | .seq .. => .idx (match intOfSeg seg with | some i => i.toNat | none => 0)
  | _ => .key (match seg with | .key s => .str s | .index _ => .int 0)

def isPlainNull : Node → Bool
  | .scalar none .null => true
  | _ => false

/-- `_get_optional_nodes(data, path, rhs)` for a straight-line path: follow existing segments, stop
at a `null` node (it is relayed whatever segments remain), create the rest. -/
def createPathN (leaf : Node) : Node → List PSeg → Except Err CreatedN
  | n, [] => .ok ⟨n, [], false⟩
  | n, seg :: rest =>
    match lookSeg n seg with
    | .crash e => .error e
    | .missing =>
      match createHereN n seg rest leaf with
      | .error e => .error e
      | .ok n' => .ok ⟨n', newRef n seg :: fillAddr rest, true⟩
    | .found r =>
      match n.child? r with
      | none => .error .outOfModel
      | some c =>
        if isPlainNull c then .ok ⟨n, [r], false⟩
        else
          match createPathN leaf c rest with
          | .error e => .error e
          | .ok cr => .ok ⟨setChild n r cr.doc, r :: cr.addr, cr.fresh⟩

/-- The default value the optional query is seeded with: `Nodes.wrap_type(rhs)` — a container as
it is, a Scalar through the C09 `wrapType`. -/
def wrapLeaf : Node → Except Err Node
  | .scalar a v => (wrapType v).map (.scalar a)
  | n => .ok n

/-! ## The merge -/

/-- What `_get_merge_target_nodes` (the optional query seeded with the right-hand document) did:
it matched these existing nodes (none: the path matches nothing and is not creatable), or the
merge path is a straight line of KEY / INDEX segments, followed and where missing created. -/
inductive Plan
  | existing (targets : List Addr)
  | create (segs : List PSeg)
  deriving Inhabited

def isNull : Node → Bool
  | .scalar _ .null => true
  | _ => false

/-- The straight-line case: follow / create the path (`createPathN`), then merge into the relayed
node unless it IS the right-hand document (`target_node is rhs`: a container just created). -/
def mergeCreate (env : Env) (r : Node) (start : Node) (segs : List PSeg) : Except AErr Node :=
  match wrapLeaf r with
  | .error e => .error (ofE e)
  | .ok leaf =>
    match createPathN leaf start segs with
    | .error e => .error (ofE e)
    | .ok c =>
      if c.fresh && !r.isScalar then .ok c.doc
      else mergeOne env r c.doc c.addr

/-- `Merger.merge_with(r)` with `Merger.data = l`, the merge path described by `plan`, and the
configuration `cfg` whose rule paths are already re-based on the merge path (`rebaseCfg`).
The result is the new `Merger.data`. -/
def mergeAt (cfg : Config) (l : Node) (plan : Plan) (r : Node) : Except AErr Node :=
  if isNull r then .ok l                                   -- "Do nothing when RHS is None"
  else
    let env := prepare cfg r
    match plan with
    | .existing targets =>
      if isNull l then .error .outOfModel                  -- (only straight-line paths are modelled here)
      else if targets.isEmpty then .error .merge           -- "A merge was not performed."
      else mergeTargets env r l targets
    | .create segs =>
      if isNull l then
        -- `self.data = Nodes.build_next_node(insert_at, 0, rhs)`
        match wrapLeaf r with
        | .error e => .error (ofE e)
        | .ok leaf =>
          if segs.isEmpty && !r.isScalar then .ok leaf     -- root path: RHS is dumped into LHS
          else mergeCreate env r (buildNextN segs leaf) segs
      else mergeCreate env r l segs

/-! ## Rule paths re-based on the merge path (`MergerConfig._prepare_user_rules`)

`[rules]`/`[keys]` entries are written against the merged (left-hand) document;
`YAMLPath.strip_path_prefix(rule_path, merge_path)` turns them into paths into the right-hand
document.  The Python compares the *texts* of the two paths in forward-slash notation
(`path_str.startswith(prefix_str)`); for plain key names (no separator, no escapes) the texts are
`/k1/k2/…`. -/

/-- `str(path)` in forward-slash notation for plain key names. -/
def renderKeys : List Str → Str
  | [] => ['/']
  | ks => ks.foldr (fun k acc => '/' :: k ++ acc) []

/-- Split a forward-slash path of plain key names back into its names (what `YAMLPath(text)`
parses: a leading separator is dropped, empty names vanish). -/
def splitKeys (s : Str) : List Str :=
  (go s [] []).filter (fun k => !k.isEmpty)
where
  go : Str → Str → List Str → List Str
    | [], cur, acc => (acc ++ [cur])
    | c :: cs, cur, acc => if c = '/' then go cs [] (acc ++ [cur]) else go cs (cur ++ [c]) acc

/-- `YAMLPath(text)` of what is left after the prefix text is cut off: a text starting with the
separator is a forward-slash path; any other text has its separator inferred as the dot, so that a
remainder like `c/x` (the prefix ended inside a key name) is ONE key. -/
def reparse (rem : Str) : List Str :=
  match rem with
  | [] => []
  | c :: cs => if c = '/' then splitKeys (c :: cs) else [c :: cs]

/-- `strip_path_prefix(path, prefix)` on plain key paths. -/
def stripPrefix (path pre : List Str) : List Str :=
  if pre.isEmpty then path
  else
    let ps := renderKeys pre
    let s := renderKeys path
    if ps.isPrefixOf s then reparse (s.drop ps.length) else path

def keysToAddr (ks : List Str) : Addr := ks.map (fun k => Ref.key (.str k))

/-- The configuration as `prepare` sees it for a merge at `mergePath`: every rule / key path has
the merge path stripped. -/
def rebaseRules {α : Type} (mergePath : List Str) (rs : List (List Str × α)) : List (Addr × α) :=
  rs.map (fun (p, x) => (keysToAddr (stripPrefix p mergePath), x))

end Ypv.MergeAt
