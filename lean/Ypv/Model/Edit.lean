import Ypv.Model.Basic
import Ypv.Model.Py
/-!
# Edit model: delete, set, key rename, creation of a missing path (C04, C03, C09)

Mirrors `Processor._delete_nodes`, `Processor._update_node` (+ its inner `recurse`),
`Processor._apply_change`, the "add the missing element" block of
`Processor._get_optional_nodes`, and `Nodes.make_new_node` / `wrap_type` / `build_next_node`.

The query evaluator is NOT part of this model: every edit takes the list of MATCHED ADDRESSES
(the harness obtains them from the real evaluator and flattens virtual collector results).
Python works on object references; this model works on addresses of an immutable tree, so
"the same object" is "the same address, or the same anchor name".  The model describes the code
AS IT IS AFTER the proposed repairs `fixes/C04-1.patch` and `fixes/C03-1.patch`
(`deletePositional` is the unrepaired reverse-order loop and is kept for the lemma the
repaired code relies on).
-/
namespace Ypv

/-- The addresses of `S` that start with `r`, with that first step removed. -/
def subAddrs (r : Ref) (S : List Addr) : List Addr :=
  S.filterMap (fun a => match a with
    | r' :: t => if r' = r then some t else none
    | [] => none)

/-! ## One positional deletion (`del parent[parentref]`, `parent.discard(parentref)`) -/

mutual
/-- `removeAt d a`: the document after `del parent[ref]` where `a = addr(parent) ++ [ref]`.
The guards of `_delete_nodes` (`len(parent) > parentref`, `parentref in parent`) make a stale
reference a no-op; so does an address that no longer leads anywhere. -/
def Node.removeAt : Node → Addr → Node
  | .seq a items, r :: rest =>
    match r with
    | .idx i => .seq a (removeAtList items i rest)
    | _ => .seq a items
  | .map a es, r :: rest =>
    match r with
    | .key k => .map a (removeAtEntries es k rest)
    | _ => .map a es
  | .set a ms, r :: rest =>
    match r, rest with
    | .member k, [] => .set a (ms.filter (fun m => !(m == k)))
    | _, _ => .set a ms
  | .scalar a v, _ => .scalar a v
  | n, [] => n
def removeAtList : List Node → Nat → Addr → List Node
  | [], _, _ => []
  | c :: cs, 0, rest =>
    match rest with
    | [] => cs
    | r :: t => c.removeAt (r :: t) :: cs
  | c :: cs, i + 1, rest => c :: removeAtList cs i rest
def removeAtEntries : List (Key × Node) → Key → Addr → List (Key × Node)
  | [], _, _ => []
  | (k', c) :: es, k, rest =>
    if k' = k then
      match rest with
      | [] => removeAtEntries es k []
      | r :: t => (k', c.removeAt (r :: t)) :: removeAtEntries es k (r :: t)
    else (k', c) :: removeAtEntries es k rest
end

/-- The pinned `_delete_nodes` loop: `for nc in reversed(nodes): del nc.parent[nc.parentref]`
on addresses (the last address is processed first). -/
def deletePositional (d : Node) (addrs : List Addr) : Node :=
  addrs.foldr (fun a acc => acc.removeAt a) d

/-! ## Normalisation performed by the repaired `_delete_nodes`
(each distinct node once; per list the highest index first).  Python deletes through object
references, so deletions under different parents never interfere; on addresses the same effect is
obtained by handling deeper parents first. -/

def lastIdx : Addr → Nat
  | [] => 0
  | [.idx i] => i
  | [_] => 0
  | _ :: r :: t => lastIdx (r :: t)

/-- strict order on (depth, last index) -/
def keyLt (a b : Addr) : Bool :=
  a.length < b.length || (a.length == b.length && lastIdx a < lastIdx b)

def dedupAddrs : List Addr → List Addr
  | [] => []
  | a :: as => if as.contains a then dedupAddrs as else a :: dedupAddrs as

def insertAddr (a : Addr) : List Addr → List Addr
  | [] => [a]
  | b :: bs => if keyLt a b then a :: b :: bs else b :: insertAddr a bs

def sortAddrs : List Addr → List Addr
  | [] => []
  | a :: as => insertAddr a (sortAddrs as)

def normalizeAddrs (addrs : List Addr) : List Addr := sortAddrs (dedupAddrs addrs)

/-- `Processor.delete_nodes` / `delete_gathered_nodes` after the repair: refuse the root before
anything is changed, then delete every distinct gathered node once. -/
def delete (d : Node) (addrs : List Addr) : Except Err Node :=
  if addrs.contains [] then .error (.ypath .noDocument)
  else .ok (deletePositional d (normalizeAddrs addrs))

/-- The pinned (unrepaired) `delete_nodes`: reverse loop, the root refusal is raised when the loop
reaches a root reference — after the references behind it were already deleted. -/
def deletePinned (d : Node) : List Addr → Node × Option Err
  | [] => (d, none)
  | a :: rest =>
    match deletePinned d rest with
    | (d', some e) => (d', some e)
    | (d', none) => if a = [] then (d', some (.ypath .noDocument)) else (d'.removeAt a, none)

/-! ## Replacing nodes (the walk of `_update_node.recurse`) -/

mutual
/-- Walk all children below the root; a child for which `p address child` holds is replaced by
`f child` and not entered, every other child is entered.  The root itself is never replaced
(`_update_node` ignores a node without parent). -/
def Node.mapAt (p : Addr → Node → Bool) (f : Node → Node) : Node → Node
  | .seq a items => .seq a (mapAtList p f 0 items)
  | .map a es => .map a (mapAtEntries p f es)
  | .set a ms => .set a ms
  | .scalar a v => .scalar a v
def mapAtList (p : Addr → Node → Bool) (f : Node → Node) : Nat → List Node → List Node
  | _, [] => []
  | i, c :: cs =>
    (if p [.idx i] c then f c else c.mapAt (fun y => p (.idx i :: y)) f) :: mapAtList p f (i + 1) cs
def mapAtEntries (p : Addr → Node → Bool) (f : Node → Node) : List (Key × Node) → List (Key × Node)
  | [] => []
  | (k, c) :: es =>
    (k, if p [.key k] c then f c else c.mapAt (fun y => p (.key k :: y)) f) :: mapAtEntries p f es
end

/-! ## The new value (`Nodes.make_new_node`, `wrap_type`, `typed_value`) -/

/-- `YAMLValueFormats` without DATE and TIMESTAMP (out of model). -/
inductive Fmt
  | default | bare | dquote | squote | folded | literal | boolean | float | int
  deriving DecidableEq, Repr, Inhabited

/-- What `ast.literal_eval` makes of a text (`Nodes.typed_value`), for the modelled texts. -/
inductive ETyped
  | bool (b : Bool) | none | int (i : Int) | float (m e : Int) | str | unmodelled
  deriving DecidableEq, Repr, Inhabited

def isAlpha (c : Char) : Bool := ('a' ≤ c && c ≤ 'z') || ('A' ≤ c && c ≤ 'Z') || c = '_'

def toLowerAscii (c : Char) : Char :=
  if 'A' ≤ c && c ≤ 'Z' then Char.ofNat (c.toNat + 32) else c

def lowerStr (s : Str) : Str := s.map toLowerAscii

def digitsVal : Str → Nat → Nat
  | [], acc => acc
  | c :: cs, acc => digitsVal cs (acc * 10 + digitVal c)

/-- strip factors of ten from a mantissa (`fuel` ≥ number of digits) -/
def stripTens : Nat → Int → Int → Int × Int
  | 0, m, e => (m, e)
  | fuel + 1, m, e => if m ≠ 0 ∧ m % 10 = 0 then stripTens fuel (m / 10) (e + 1) else (m, e)

/-- canonical float `m × 10^e` (no trailing zero in `m`; zero is `(0,0)`) -/
def normFloat (m e : Int) : Int × Int :=
  if m = 0 then (0, 0) else stripTens 400 m e

/-- unsigned numeric literal: `0 | [1-9][0-9]*` (int) or `digits+ . digits+` (float) -/
def unsignedLit (s : Str) : ETyped :=
  let ip := s.takeWhile isDigit
  let rest := s.dropWhile isDigit
  if ip = [] then .unmodelled
  else match rest with
    | [] => if ip.length > 15 then .unmodelled
            else if ip = ['0'] ∨ ip.head? ≠ some '0' then .int (digitsVal ip 0) else .unmodelled
    | '.' :: fp =>
      if fp ≠ [] ∧ fp.all isDigit ∧ ip.length + fp.length ≤ 15 then
        let (m, e) := normFloat (digitsVal (ip ++ fp) 0) (-(fp.length : Int))
        .float m e
      else .unmodelled
    | _ => .unmodelled

def negTyped : ETyped → ETyped
  | .int i => .int (-i)
  | .float m e => .float (-m) e
  | t => t

/-- A Python string literal in its simplest form: `q body q` with `q` one of `'` `"` and a body free
of that quote, of backslashes and of control characters.  `ast.literal_eval` yields the BODY (a
`str`), so `Nodes.typed_value` classes the text as text, and `wrap_type` / `make_new_node` then wrap
the SUPPLIED text — quotation marks included (`PlainScalarString(value)`, not `…(ast_value)`). -/
def isQuotedLit (s : Str) : Bool :=
  match s with
  | q :: r =>
    (q = '\'' || q = '"') && r.getLast? = some q &&
      r.dropLast.all (fun x => x != q && x != '\\' && x.toNat ≥ 32)
  | [] => false

/-- the body of a quoted literal (what `ast.literal_eval` yields for it) -/
def quotedBody (s : Str) : Str := (s.drop 1).dropLast

def isHexDigit (c : Char) : Bool := isDigit c || ('a' ≤ c && c ≤ 'f') || ('A' ≤ c && c ≤ 'F')

/-- `0x…` / `0o…` / `0b…` with at least one digit of the base and nothing else (no `_`). -/
def isPrefixedInt (s : Str) : Bool :=
  match s with
  | '0' :: b :: ds =>
    !ds.isEmpty &&
      (((b = 'x' || b = 'X') && ds.all isHexDigit) ||
       ((b = 'o' || b = 'O') && ds.all (fun c => '0' ≤ c && c ≤ '7')) ||
       ((b = 'b' || b = 'B') && ds.all (fun c => c = '0' || c = '1')))
  | _ => false

/-- a decimal integer literal `0 | [1-9][0-9]*` of at most 15 digits -/
def isPlainDecimal (s : Str) : Bool :=
  !s.isEmpty && s.length ≤ 15 && s.all isDigit && (s = ['0'] || s.head? != some '0')

/-- **Integer look-alikes**: texts that `ast.literal_eval` reads as an `int` but `int(text)` rejects
(`ValueError`) — hexadecimal / octal / binary literals with one optional sign (`0x1F`, `-0o17`,
`0b101`), a parenthesised decimal (`(1)`, `(-12)`), a sign separated from its decimal by one blank
(`- 5`).  `wrap_type` builds `ScalarInt(text)`, which fails; `make_new_node` falls back to
`PlainScalarString(text)`: the value stays the TEXT. -/
def isIntLookalike (s : Str) : Bool :=
  let unsigned : Str := match s with
    | '-' :: r => r
    | '+' :: r => r
    | r => r
  isPrefixedInt unsigned ||
  (match s with
   | '(' :: r =>
     r.getLast? = some ')' &&
       (let body := r.dropLast
        isPlainDecimal body || (match body with
          | '-' :: b => isPlainDecimal b
          | '+' :: b => isPlainDecimal b
          | _ => false))
   | '-' :: ' ' :: r => isPlainDecimal r
   | '+' :: ' ' :: r => isPlainDecimal r
   | _ => false)

/-- `Nodes.typed_value` on a text, as far as `wrap_type` / `make_new_node` care.  Modelled classes
(checked exhaustively against the real function for short texts by the harness): true/false in any
case; `None`; decimal int and positional float literals with one optional sign; words (a letter or
`_` first, then letters, digits, `_`, blank, `-`, `.`) and the empty text, which stay text; and two
classes of Python literals that END AS TEXT although `literal_eval` accepts them: simple quoted
string literals (`isQuotedLit`: the literal's value is the body, the node keeps the supplied text)
and integer look-alikes (`isIntLookalike`: `literal_eval` yields an int, `int(text)` fails, the node
keeps the text) — both are classed `.str` ("the new node holds the supplied text").  Everything
else (brackets, exponents, underscores in numbers, escapes inside quotes, …) is `unmodelled`. -/
def eTypedValue (s : Str) : ETyped :=
  if isQuotedLit s || isIntLookalike s then .str else
  let low := lowerStr s
  if low = "true".toList then .bool true
  else if low = "false".toList then .bool false
  else if s = "None".toList then .none
  else match s with
    | [] => .str
    | '-' :: r => negTyped (unsignedLit r)
    | '+' :: r => unsignedLit r
    | c :: r =>
      if isDigit c then unsignedLit s
      else if isAlpha c ∧ r.all (fun x => isAlpha x || isDigit x || x = ' ' || x = '-' || x = '.')
              ∧ r.getLast? ≠ some ' ' then .str
      else .unmodelled

/-- Python `repr(float)` for the canonical decimal `m × 10^e`, positional notation only
(`none`: exponent notation would be used — out of model). -/
def ePyReprFloat (m e : Int) : Option Str :=
  if m = 0 then some "0.0".toList
  else
    let ds := natDigits m.natAbs
    let L : Int := ds.length
    let sign : Str := if m < 0 then ['-'] else []
    let x := L + e - 1
    if x < -4 ∨ x ≥ 16 then none
    else if e ≥ 0 then some (sign ++ ds ++ List.replicate e.toNat '0' ++ ".0".toList)
    else if L + e > 0 then some (sign ++ ds.take (L + e).toNat ++ ['.'] ++ ds.drop (L + e).toNat)
    else some (sign ++ "0.".toList ++ List.replicate (-(L + e)).toNat '0' ++ ds)

/-- Python `str(value)` of the value handed to `set_value`. -/
def pyStrVal : Scalar → Option Str
  | .null => some "None".toList
  | .bool true => some "True".toList
  | .bool false => some "False".toList
  | .int i => some (pyStrInt i)
  | .float m e => ePyReprFloat m e
  | .str s => some s
  | .opaque _ => none

def boolWords : List Str :=
  ["true".toList, "false".toList, "yes".toList, "no".toList, "y".toList, "n".toList,
   "t".toList, "f".toList, "1".toList, "0".toList]
def trueWords : List Str :=
  ["true".toList, "yes".toList, "y".toList, "t".toList, "1".toList]

def pow10 (n : Nat) : Int := (10 : Int) ^ n

/-- `ValueError` — and, after `fixes/C03-1.patch`, `TypeError` (`int(None)`, `NoneType(None, anchor=…)`) —
inside `make_new_node` becomes `TypeMismatchYAMLPathException` in `_apply_change`. -/
def valueError : Err := .ypath .typeMismatch

/-- the scalar written by format BOOLEAN -/
def fmtBoolean (v : Scalar) : Except Err Scalar :=
  match v with
  | .bool b => .ok (.bool b)
  | _ => match pyStrVal v with
    | none => .error .outOfModel
    | some s =>
      let low := lowerStr s
      if boolWords.contains low then .ok (.bool (trueWords.contains low)) else .error valueError

/-- `float(value)` then `make_float_node` -/
def fmtFloat (v : Scalar) : Except Err Scalar :=
  match v with
  | .null => .error valueError
  | .bool b => .ok (.float (if b then 1 else 0) 0)
  | .int i => if i.natAbs ≥ 10 ^ 15 then .error .outOfModel else
      let (m, e) := normFloat i 0; .ok (.float m e)
  | .float m e => .ok (.float m e)
  | .str s => match eTypedValue s with
    | .int i => let (m, e) := normFloat i 0; .ok (.float m e)
    | .float m e => .ok (.float m e)
    | .unmodelled => .error .outOfModel
    | _ =>
      let low := lowerStr s
      if low = "inf".toList ∨ low = "nan".toList ∨ low = "infinity".toList then .error .outOfModel
      else .error valueError
  | .opaque _ => .error .outOfModel

/-- `int(value)` -/
def fmtInt (v : Scalar) : Except Err Scalar :=
  match v with
  | .null => .error valueError
  | .bool b => .ok (.int (if b then 1 else 0))
  | .int i => .ok (.int i)
  | .float m e => if e ≥ 0 then .ok (.int (m * pow10 e.toNat)) else .ok (.int (Int.tdiv m (pow10 (-e).toNat)))
  | .str s => match eTypedValue s with
    | .int i => .ok (.int i)
    | .unmodelled => .error .outOfModel
    | _ => .error valueError
  | .opaque _ => .error .outOfModel

def fmtText (v : Scalar) : Except Err Scalar :=
  match pyStrVal v with
  | some s => .ok (.str s)
  | none => .error .outOfModel

/-- `Nodes.make_new_node(source, value, format)`: the new scalar, given whether the source node
carries an anchor (a `None` / plain `str` result cannot take one: `TypeError`, reported as a
YAML Path type mismatch). -/
def newScalar (anchored : Bool) (v : Scalar) (fmt : Fmt) : Except Err Scalar :=
  match fmt with
  | .bare | .dquote | .squote | .folded | .literal => fmtText v
  | .boolean => fmtBoolean v
  | .float => fmtFloat v
  | .int => fmtInt v
  | .default =>
    match v with
    | .null => if anchored then .error valueError else .ok .null
    | .bool b => .ok (.bool b)
    | .int i => .ok (.int i)
    | .float m e => .ok (.float m e)
    | .opaque _ => .error .outOfModel
    | .str s => match eTypedValue s with
      | .bool _ => fmtBoolean v
      | .int _ => fmtInt v
      | .float _ _ => fmtFloat v
      | .none => if anchored then .error valueError else .ok (.str s)
      | .str => .ok (.str s)
      | .unmodelled => .error .outOfModel

/-- `Nodes.wrap_type(value)` as a scalar (after `fixes/C09-1.patch`; the pinned code wraps
`ScalarBoolean(bool(value))`, i.e. `True` for the text `false`; and after `fixes/C09-2.patch`: for an
integer look-alike the pinned code lets the `ValueError` of `ScalarInt(text)` escape, the repaired
code keeps the text as `make_new_node` does). -/
def wrapType (v : Scalar) : Except Err Scalar :=
  match v with
  | .opaque _ => .error .outOfModel
  | .str s => match eTypedValue s with
    | .bool b => .ok (.bool b)
    | .int i => .ok (.int i)
    | .float m e => .ok (.float m e)
    | .none => .ok (.str s)
    | .str => .ok (.str s)
    | .unmodelled => .error .outOfModel
  | v => .ok v

/-! ## `set_value` over the matched addresses -/

/-- `val is reference_node` for the walk: the referenced position itself, or (for an anchored
reference node) any node carrying its anchor name. -/
def isRef (a : Addr) (x : Option Str) : Addr → Node → Bool :=
  fun y n => y == a || (x.isSome && n.anchor == x)

def putScalar (s : Scalar) : Node → Node := fun old => .scalar old.anchor s

def lastIsMember : Addr → Bool
  | [] => false
  | [.member _] => true
  | [_] => false
  | _ :: r :: t => lastIsMember (r :: t)

/-- One `_apply_change` → `_update_node`. -/
def setStep (v : Scalar) (fmt : Fmt) (d : Node) (a : Addr) : Except Err Node :=
  if a = [] then .ok d
  else if lastIsMember a then .error .outOfModel
  else match d.get? a with
    | none => .ok d
    | some n =>
      match newScalar n.anchor.isSome v fmt with
      | .error e => .error e
      | .ok s => .ok (d.mapAt (isRef a n.anchor) (putScalar s))

/-- `Processor.set_value(path, value, value_format=fmt)` on the matched addresses, in order. -/
def setValue (v : Scalar) (fmt : Fmt) : Node → List Addr → Except Err Node
  | d, [] => .ok d
  | d, a :: rest =>
    match setStep v fmt d a with
    | .error e => .error e
    | .ok d' => setValue v fmt d' rest

/-! ## Key rename through `[name()]` (`_apply_change`) -/

inductive RenameOut
  | ok (n : Node) | duplicate | notMap
  deriving Inhabited

mutual
def Node.renameAt (newKey : Key) : Node → Addr → Except Err Node
  | .map a es, r :: rest =>
    match r, rest with
    | .key k, [] =>
      if (es.map Prod.fst).contains newKey then .error (.ypath .duplicateKey)
      else .ok (.map a (es.map (fun e => if e.1 = k then (newKey, e.2) else e)))
    | .key k, r' :: t => (renameEntries newKey es k (r' :: t)).map (.map a)
    | _, _ => .error (.ypath .generic)
  | .seq a items, r :: rest =>
    match r, rest with
    | .idx i, r' :: t => (renameList newKey items i (r' :: t)).map (.seq a)
    | _, _ => .error (.ypath .generic)
  | .set _ _, _ => .error (.ypath .generic)
  | .scalar _ _, _ => .error (.ypath .generic)
  | n, [] => .ok n
def renameList (newKey : Key) : List Node → Nat → Addr → Except Err (List Node)
  | [], _, _ => .error (.ypath .generic)
  | c :: cs, 0, rest => (c.renameAt newKey rest).map (· :: cs)
  | c :: cs, i + 1, rest => (renameList newKey cs i rest).map (c :: ·)
def renameEntries (newKey : Key) : List (Key × Node) → Key → Addr → Except Err (List (Key × Node))
  | [], _, _ => .error (.ypath .generic)
  | (k', c) :: es, k, rest =>
    if k' = k then (c.renameAt newKey rest).map (fun c' => (k', c') :: es)
    else (renameEntries newKey es k rest).map ((k', c) :: ·)
end

def renameKeys (newKey : Key) : Node → List Addr → Except Err Node
  | d, [] => .ok d
  | d, a :: rest =>
    match (if a = [] then .error (.ypath .generic) else d.renameAt newKey a) with
    | .error e => .error e
    | .ok d' => renameKeys newKey d' rest

/-! ## Creation of a missing straight-line path (`_get_optional_nodes`) -/

/-- A straight-line segment: KEY text or INDEX integer. -/
inductive PSeg
  | key (s : Str)
  | index (i : Int)
  deriving DecidableEq, Repr, Inhabited

/-- `Nodes.build_next_node(path, depth+1, value)`: the default for the element that the segments
after the current one (`rest`) will be looked up in. -/
def buildNext (rest : List PSeg) (leaf : Scalar) : Node :=
  match rest with
  | [] => .scalar none leaf
  | .index _ :: _ => .seq none []
  | .key _ :: _ => .map none []

/-- The subtree created for the segments `rest` below a freshly created element. -/
def fill : List PSeg → Scalar → Except Err Node
  | [], leaf => .ok (.scalar none leaf)
  | .key s :: rest, leaf => (fill rest leaf).map (fun c => .map none [(.str s, c)])
  | .index i :: rest, leaf =>
    if i < 0 then .error (.ypath .generic)   -- "Cannot add an element before the start of a list" (fix 205ff02)
    else (fill rest leaf).map (fun c => .seq none (List.replicate i.toNat (buildNext rest leaf) ++ [c]))

/-- The address, inside a freshly created element, of the leaf that `fill` builds. -/
def fillAddr : List PSeg → Addr
  | [] => []
  | .key s :: rest => .key (.str s) :: fillAddr rest
  | .index i :: rest => .idx i.toNat :: fillAddr rest

/-- How a segment resolves in a node (`_get_nodes_by_key` / `_get_nodes_by_index`, straight-line
part only). -/
inductive Look
  | found (r : Ref)          -- the child exists
  | missing                  -- no match: the creation block runs
  | crash (e : Err)
  deriving Inhabited

def intOfSeg : PSeg → Option Int
  | .index i => some i
  | .key s => pyInt? s

def lookSeg (n : Node) (seg : PSeg) : Look :=
  match n with
  | .map _ es =>
    match seg with
    | .key s =>
      if (es.map Prod.fst).contains (.str s) then .found (.key (.str s))
      else match pyInt? s with
        | some i => if (es.map Prod.fst).contains (.int i) then .found (.key (.int i)) else .missing
        | none => .missing
    | .index _ => .missing
  | .seq _ items =>
    match intOfSeg seg with
    | some i =>
      if (items.length : Int) > i then
        if i ≥ 0 then .found (.idx i.toNat)
        else if -i ≤ items.length then .found (.idx (items.length - (-i).toNat))
        else .crash (.ypath .generic)   -- below the start of the list: the creation block refuses (fix 205ff02)
      else .missing
    | none => .crash .outOfModel          -- pass-through search of an array of hashes
  | .set _ _ => .crash .outOfModel
  | .scalar _ _ => .missing

/-- The creation block for one missing segment in `n`. -/
def createHere (n : Node) (seg : PSeg) (rest : List PSeg) (leaf : Scalar) : Except Err Node :=
  match n with
  | .seq a items =>
    match intOfSeg seg with
    | none => .error (.ypath .typeMismatch)
    | some i =>
      if i < 0 then .error (.ypath .generic)   -- "Cannot add an element before the start of a list" (fix 205ff02)
      else match fill rest leaf with
        | .error e => .error e
        | .ok c => .ok (.seq a (items ++ List.replicate (i.toNat - items.length) (buildNext rest leaf) ++ [c]))
  | .map a es =>
    match seg with
    | .key s => match fill rest leaf with
      | .error e => .error e
      | .ok c => .ok (.map a (es ++ [(.str s, c)]))
    | .index _ => .error (.ypath .generic)
  | .set _ _ => .error .outOfModel
  | .scalar _ _ => .error (.ypath .generic)

/-- Outcome of following / creating a path: the new document and the address of the node the
caller receives. -/
structure Created where
  doc : Node
  addr : Addr
  deriving Inhabited

mutual
/-- `_get_optional_nodes(data, path, value)` for a straight-line path: follow existing segments,
stop at a `null` node (it is relayed as the result whatever segments remain), create the rest. -/
def Node.createPath (leaf : Scalar) : Node → List PSeg → Except Err Created
  | n, [] => .ok ⟨n, []⟩
  | .seq a items, seg :: rest =>
    match lookSeg (.seq a items) seg with
    | .crash e => .error e
    | .missing => (createHere (.seq a items) seg rest leaf).map
        (fun n' => ⟨n', .idx (match intOfSeg seg with | some i => i.toNat | none => 0) :: fillAddr rest⟩)
    | .found (.idx i) => (createList leaf items i rest).map (fun (cs, ad) => ⟨.seq a cs, .idx i :: ad⟩)
    | .found _ => .error .outOfModel
  | .map a es, seg :: rest =>
    match lookSeg (.map a es) seg with
    | .crash e => .error e
    | .missing => (createHere (.map a es) seg rest leaf).map
        (fun n' => ⟨n', .key (match seg with | .key s => .str s | .index _ => .int 0) :: fillAddr rest⟩)
    | .found (.key k) => (createEntries leaf es k rest).map (fun (es', ad) => ⟨.map a es', .key k :: ad⟩)
    | .found _ => .error .outOfModel
  | .set _ _, _ :: _ => .error .outOfModel
  | .scalar _ _, _ :: _ => .error (.ypath .generic)
def createList (leaf : Scalar) : List Node → Nat → List PSeg → Except Err (List Node × Addr)
  | [], _, _ => .error .outOfModel
  | c :: cs, 0, rest =>
    match c with
    | .scalar none .null => .ok (c :: cs, [])
    | _ => (c.createPath leaf rest).map (fun r => (r.doc :: cs, r.addr))
  | c :: cs, i + 1, rest => (createList leaf cs i rest).map (fun (cs', ad) => (c :: cs', ad))
def createEntries (leaf : Scalar) : List (Key × Node) → Key → List PSeg → Except Err (List (Key × Node) × Addr)
  | [], _, _ => .error .outOfModel
  | (k', c) :: es, k, rest =>
    if k' = k then
      match c with
      | .scalar none .null => .ok ((k', c) :: es, [])
      | _ => (c.createPath leaf rest).map (fun r => ((k', r.doc) :: es, r.addr))
    else (createEntries leaf es k rest).map (fun (es', ad) => ((k', c) :: es', ad))
end

/-- `Processor.get_nodes(path, mustexist=False, default_value=v)`: the document afterwards and the
address of the single node relayed. -/
def getOrCreate (d : Node) (segs : List PSeg) (v : Scalar) : Except Err Created :=
  match wrapType v with
  | .error e => .error e
  | .ok leaf => d.createPath leaf segs

/-- `Processor.set_value(path, v, value_format=fmt)` (mustexist=False) for a straight-line path. -/
def setOrCreate (d : Node) (segs : List PSeg) (v : Scalar) (fmt : Fmt) : Except Err Node :=
  match getOrCreate d segs v with
  | .error e => .error e
  | .ok r => setStep v fmt r.doc r.addr

/-! ## Histories -/

inductive Op
  | set (addrs : List Addr) (v : Scalar) (fmt : Fmt)
  | delete (addrs : List Addr)
  | create (segs : List PSeg) (v : Scalar) (fmt : Fmt)
  deriving Inhabited

def Op.apply (d : Node) : Op → Except Err Node
  | .set addrs v fmt => setValue v fmt d addrs
  | .delete addrs => Ypv.delete d addrs
  | .create segs v fmt => setOrCreate d segs v fmt

/-- Run a history; a failing step leaves the document as it was before that step (the harness
compares such steps by error class only) and the history continues. -/
def runOps : Node → List Op → Node
  | d, [] => d
  | d, op :: ops =>
    match op.apply d with
    | .ok d' => runOps d' ops
    | .error _ => runOps d ops

end Ypv
