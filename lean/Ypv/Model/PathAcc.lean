import Ypv.Model.Render
import Ypv.Model.Eval
/-!
# The `YAMLPath` object a result reports (`NodeCoords.path`)

The evaluator starts every query with `translated_path = YAMLPath("")` and hands each child
`translated_path + section` (`YAMLPath.__add__`: a fresh copy, then `append`, which inserts the
separator inferred from the text so far).  `Ctx.path` lists the sections; `accObj` is the object they
build, `reported` its `str()` — the text a caller sees and feeds back into a query.
-/
namespace Ypv.Acc
open Ypv

/-- `YAMLPath("") + s₁ + s₂ + …` -/
def accObj (secs : List Str) : PathObj := secs.foldl PathObj.add (PathObj.new [])

/-- `str(p)` -/
def strOf (p : PathObj) : Except PErr Str :=
  match p.str with
  | .ok (r, _) => .ok r
  | .error e => .error e

/-- `str(result.path)` -/
def reported (c : Ctx) : Except PErr Str := strOf (accObj c.path)

/-- `result.path.separator = FSLASH` (or `DOT`), then `str(result.path)` -/
def reportedAs (fslash : Bool) (c : Ctx) : Except PErr Str :=
  match (accObj c.path).setSep (if fslash then .fslash else .dot) with
  | .error e => .error e
  | .ok p => strOf p

end Ypv.Acc
