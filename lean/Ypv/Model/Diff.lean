import Ypv.Model.Basic
/-!
# Model of `yamlpath.differ` (C06)

Mirrors `Differ.compare_to`, `_diff_between`, `_diff_dicts`, `_diff_lists`,
`_diff_arrays_of_scalars`, `_diff_arrays_of_hashes`, `_diff_synced_lists`, `_diff_sets`,
`_diff_scalars`, `_purge_document`, `_add_everything`, `synchronize_lists_by_value`,
`synchronize_lods_by_key`, the mode resolution of `DifferConfig` (without per-node `[rules]` /
`[keys]` sections) and the `changes_found` ⇒ exit status logic of `yaml_diff.print_report/main`,
**as the code reads after the proposed repairs `fixes/C06-1 … C06-4`** (positional comparison by
index instead of `is None`; unmatched sides of a synchronised pair recognised by their index;
an empty right-hand list still deletes the left elements; a SAME entry for equal records under
AoH position mode; a non-hash member has no identity key).

A report is a list of entries; its order (line/column sort keys) is presentation and not modelled:
the functions below emit entries in an order of their own.  The address of an entry is the
YAML Path the code builds with `path + "[i]"` / `path + escape_path_section(key)`.

The flag `strict` does not exist in the code.  `strict = false` is the code: `_purge_document` and
`_add_everything` report nothing for a `null` and nothing for an empty container.  `strict = true`
is the behaviour the property asks for (such a node is reported at its own path).  The two agree
on every input that has no "void clash" (a null / empty container compared with a node of another
kind); that class is the registered finding C06-K1.
-/
namespace Ypv.Diff
open Ypv

/-- `DiffActions` -/
inductive Action
  | same | change | add | delete
  deriving DecidableEq, Repr, Inhabited

/-- `ArrayDiffOpts` -/
inductive ArrayMode
  | position | value
  deriving DecidableEq, Repr, Inhabited

/-- `AoHDiffOpts` -/
inductive AoHMode
  | deep | dpos | key | position | value
  deriving DecidableEq, Repr, Inhabited

structure Cfg where
  arr : ArrayMode
  aoh : AoHMode
  deriving DecidableEq, Repr, Inhabited

/-- `ArrayDiffOpts.get_names()` / `AoHDiffOpts.get_names()` (compared with the live enums). -/
def arrayModeNames : List (Str × ArrayMode) :=
  [("POSITION".toList, .position), ("VALUE".toList, .value)]
def aohModeNames : List (Str × AoHMode) :=
  [("DEEP".toList, .deep), ("DPOS".toList, .dpos), ("KEY".toList, .key),
   ("POSITION".toList, .position), ("VALUE".toList, .value)]
def actionNames : List (Str × Action) :=
  [("ADD".toList, .add), ("CHANGE".toList, .change), ("DELETE".toList, .delete), ("SAME".toList, .same)]

/-- `DifferConfig.array_diff_mode` / `aoh_diff_mode`: precedence
config `[rules]` > command line > config `[defaults]` > POSITION. -/
def resolveMode {α : Type} (rule cli dflt : Option α) (fallback : α) : α :=
  match rule with
  | some m => m
  | none => match cli with
    | some m => m
    | none => match dflt with
      | some m => m
      | none => fallback

def resolveCfg (ruleA cliA dfltA : Option ArrayMode) (ruleH cliH dfltH : Option AoHMode) : Cfg :=
  ⟨resolveMode ruleA cliA dfltA .position, resolveMode ruleH cliH dfltH .position⟩

/-- One `DiffEntry`: action, path (as address), left value, right value (`none` = Python passes
`None` because the side does not exist). -/
structure Entry where
  action : Action
  path : Addr
  lhs : Option Node
  rhs : Option Node
  deriving DecidableEq, Repr, Inhabited

/-! ## Python `==` on document nodes -/

/-- What Python's `==` looks at in a scalar: `True == 1 == 1.0`; a `str` equals only a `str`. -/
inductive SKey
  | null
  | int (i : Int)
  | frac (m e : Int)
  | str (s : Str)
  | opaque (s : Str)
  deriving DecidableEq, Repr, Inhabited

def skey : Scalar → SKey
  | .null => .null
  | .bool b => .int (if b then 1 else 0)
  | .int i => .int i
  | .float m e => if 0 ≤ e then .int (m * 10 ^ e.toNat) else .frac m e
  | .str s => .str s
  | .opaque s => .opaque s

def Key.toScalar : Key → Scalar
  | .str s => .str s
  | .int i => .int i

/-- A set member seen as a node (what `Node.child?` returns for it). -/
def keyNode (k : Key) : Node := .scalar none (Key.toScalar k)

def hasKey (es : List (Key × Node)) (k : Key) : Bool := es.any (fun kv => kv.1 == k)

mutual
/-- Python `lhs == rhs` for ruamel nodes: anchors are not looked at, mappings compare as
`dict`s (order-insensitive), sequences as lists, sets as sets. -/
def eqv : Node → Node → Bool
  | .scalar _ a, .scalar _ b => skey a == skey b
  | .seq _ xs, .seq _ ys => eqvList xs ys
  | .map _ es, .map _ fs => eqvEntries es fs && fs.all (fun kv => hasKey es kv.1)
  | .set _ ms, .set _ ns => ms.all (fun k => ns.contains k) && ns.all (fun k => ms.contains k)
  | .scalar .., .seq .. | .scalar .., .map .. | .scalar .., .set ..
  | .seq .., .scalar .. | .seq .., .map .. | .seq .., .set ..
  | .map .., .scalar .. | .map .., .seq .. | .map .., .set ..
  | .set .., .scalar .. | .set .., .seq .. | .set .., .map .. => false
def eqvList : List Node → List Node → Bool
  | [], [] => true
  | x :: xs, y :: ys => eqv x y && eqvList xs ys
  | [], _ :: _ | _ :: _, [] => false
/-- every left entry has an equal partner on the right -/
def eqvEntries : List (Key × Node) → List (Key × Node) → Bool
  | [], _ => true
  | (k, v) :: es, fs =>
    (match fs.lookup k with
     | some w => eqv v w
     | none => false) && eqvEntries es fs
end

/-! ## `_purge_document` / `_add_everything` -/

def mkDel (p : Addr) (n : Node) : Entry := ⟨.delete, p, some n, none⟩
def mkAdd (p : Addr) (n : Node) : Entry := ⟨.add, p, none, some n⟩

/-- a `null`, or a container without children: what `_purge_document` / `_add_everything`
say nothing about -/
def isVoid : Node → Bool
  | .scalar _ .null => true
  | .seq _ [] => true
  | .map _ [] => true
  | .set _ [] => true
  | _ => false

def delSeq (p : Addr) : Nat → List Node → List Entry
  | _, [] => []
  | i, x :: xs => mkDel (p ++ [.idx i]) x :: delSeq p (i + 1) xs

def addSeq (p : Addr) : Nat → List Node → List Entry
  | _, [] => []
  | i, x :: xs => mkAdd (p ++ [.idx i]) x :: addSeq p (i + 1) xs

def purgeCore (p : Addr) : Node → List Entry
  | .map _ es => es.map (fun kv => mkDel (p ++ [.key kv.1]) kv.2)
  | .seq _ xs => delSeq p 0 xs
  | .set _ ms => ms.map (fun k => mkDel (p ++ [.member k]) (keyNode k))
  | .scalar _ .null => []
  | .scalar a v => [mkDel p (.scalar a v)]

def addAllCore (p : Addr) : Node → List Entry
  | .map _ es => es.map (fun kv => mkAdd (p ++ [.key kv.1]) kv.2)
  | .seq _ xs => addSeq p 0 xs
  | .set _ ms => ms.map (fun k => mkAdd (p ++ [.member k]) (keyNode k))
  | .scalar _ .null => []
  | .scalar a v => [mkAdd p (.scalar a v)]

def purge (strict : Bool) (p : Addr) (n : Node) : List Entry :=
  if strict && isVoid n then [mkDel p n] else purgeCore p n

def addAll (strict : Bool) (p : Addr) (n : Node) : List Entry :=
  if strict && isVoid n then [mkAdd p n] else addAllCore p n

/-! ## list synchronisation -/

/-- one tuple of `syn_pairs`: `(lhs_idx, lhs_ele, rhs_idx, rhs_ele)`, either side may be absent -/
structure Pair where
  l : Option (Nat × Node)
  r : Option (Nat × Node)
  deriving DecidableEq, Repr, Inhabited

def enumFrom : Nat → List Node → List (Nat × Node)
  | _, [] => []
  | i, x :: xs => (i, x) :: enumFrom (i + 1) xs

/-- the first element of `rhs_reduced` satisfying `f`, and the list without it (`pop(del_index)`) -/
def removeFirst (f : Node → Bool) : List (Nat × Node) → Option ((Nat × Node) × List (Nat × Node))
  | [] => none
  | y :: ys =>
    if f y.2 then some (y, ys)
    else match removeFirst f ys with
      | some (z, zs) => some (z, y :: zs)
      | none => none

/-- the loop shared by `synchronize_lists_by_value` and `synchronize_lods_by_key` -/
def syncLoop (m : Node → Node → Bool) : Nat → List Node → List (Nat × Node) → List Pair
  | _, [], rem => rem.map (fun y => ⟨none, some y⟩)
  | i, x :: xs, rem =>
    match removeFirst (m x) rem with
    | some (y, rem') => ⟨some (i, x), some y⟩ :: syncLoop m (i + 1) xs rem'
    | none => ⟨some (i, x), none⟩ :: syncLoop m (i + 1) xs rem

def sync (m : Node → Node → Bool) (xs ys : List Node) : List Pair :=
  syncLoop m 0 xs (enumFrom 0 ys)

/-- the identity key `synchronize_lods_by_key` infers: first key of the first right-hand record;
`""` when there is none -/
def keyAttr : List Node → Key
  | .map _ ((k, _) :: _) :: _ => k
  | _ => .str []

def keyVal (ka : Key) : Node → Option Node
  | .map _ es => es.lookup ka
  | _ => none

/-- a left and a right record belong together: both are hashes holding the identity key, with
equal values -/
def keyMatch (ka : Key) (x y : Node) : Bool :=
  match keyVal ka x, keyVal ka y with
  | some v, some w => eqv w v
  | _, _ => false

def syncByValue (xs ys : List Node) : List Pair := sync (fun x y => eqv y x) xs ys
def syncByKey (xs ys : List Node) : List Pair := sync (keyMatch (keyAttr ys)) xs ys

/-! ## the comparers -/

/-- which comparer `_diff_lists` → `_diff_arrays_of_hashes` / `_diff_arrays_of_scalars` ends in -/
inductive ListMode
  | nothing | posDeep | posShallow | value | key | deep
  deriving DecidableEq, Repr, Inhabited

def isMap : Node → Bool
  | .map .. => true
  | _ => false

def listMode (c : Cfg) (xs ys : List Node) : ListMode :=
  let exemplar := match ys with
    | [] => xs
    | _ :: _ => ys
  match exemplar with
  | [] => .nothing
  | e :: _ =>
    if isMap e then
      match c.aoh with
      | .position => if c.arr = .value then .value else .posShallow
      | .dpos => if c.arr = .value then .value else .posDeep
      | .value => .value
      | .key => .key
      | .deep => .deep
    else
      match c.arr with
      | .value => .value
      | .position => .posDeep

def scalarEntry (p : Addr) (l r : Node) : Entry :=
  ⟨if eqv l r then .same else .change, p, some l, some r⟩

/-- `_diff_arrays_of_scalars(diff_deeply=False)`: records compared as whole units by position -/
def posShallow (p : Addr) : Nat → List Node → List Node → List Entry
  | _, [], [] => []
  | i, [], y :: ys => mkAdd (p ++ [.idx i]) y :: posShallow p (i + 1) [] ys
  | i, x :: xs, [] => mkDel (p ++ [.idx i]) x :: posShallow p (i + 1) xs []
  | i, x :: xs, y :: ys => scalarEntry (p ++ [.idx i]) x y :: posShallow p (i + 1) xs ys

def isDeleteAt (q : Addr) (e : Entry) : Bool := e.action == .delete && e.path == q

/-- remove the last entry satisfying `f` (the `reversed(...)` search and `pop(pop_index)`) -/
def popLast (f : Entry → Bool) : List Entry → Option (Entry × List Entry)
  | [] => none
  | e :: es =>
    match popLast f es with
    | some (d, es') => some (d, e :: es')
    | none => if f e then some (e, es) else none

/-- the `lidx is None` arm of `_diff_synced_lists`: an earlier DELETE at the same path turns the
pending ADD into a CHANGE -/
def addOrChange (acc : List Entry) (q : Addr) (y : Node) : List Entry :=
  match popLast (isDeleteAt q) acc with
  | some (d, acc') => acc' ++ [⟨.change, q, d.lhs, some y⟩]
  | none => acc ++ [mkAdd q y]

def mergeAdds (p : Addr) : List Entry → List (Nat × Node) → List Entry
  | acc, [] => acc
  | acc, (j, y) :: rest => mergeAdds p (addOrChange acc (p ++ [.idx j]) y) rest

mutual
/-- `_diff_between` -/
def diffBetween (s : Bool) (c : Cfg) (p : Addr) : Node → Node → List Entry
  | .map _ es, .map _ fs =>
    diffDict s c p es fs
      ++ (fs.filter (fun kv => !(hasKey es kv.1))).map (fun kv => mkAdd (p ++ [.key kv.1]) kv.2)
  | .seq _ xs, .seq _ ys =>
    match listMode c xs ys with
    | .nothing => []
    | .posShallow => posShallow p 0 xs ys
    | .posDeep => diffPos s c p 0 xs ys
    | .value =>
      let out := diffValue s c p 0 xs (enumFrom 0 ys)
      mergeAdds p out.1 out.2
    | .key => diffKey s c p false (keyAttr ys) 0 xs (enumFrom 0 ys)
    | .deep => diffKey s c p true (keyAttr ys) 0 xs (enumFrom 0 ys)
  | .set _ ms, .set _ ns =>
    ms.map (fun k => if ns.contains k then (⟨.same, p ++ [.member k], some (keyNode k), some (keyNode k)⟩ : Entry)
                     else mkDel (p ++ [.member k]) (keyNode k))
      ++ (ns.filter (fun k => !(ms.contains k))).map (fun k => mkAdd (p ++ [.member k]) (keyNode k))
  | .scalar a x, .scalar b y => [scalarEntry p (.scalar a x) (.scalar b y)]
  | .scalar a x, .seq b ys => purge s p (.scalar a x) ++ addAll s p (.seq b ys)
  | .scalar a x, .map b fs => purge s p (.scalar a x) ++ addAll s p (.map b fs)
  | .scalar a x, .set b ns => purge s p (.scalar a x) ++ addAll s p (.set b ns)
  | .seq a xs, .scalar b y => purge s p (.seq a xs) ++ addAll s p (.scalar b y)
  | .seq a xs, .map b fs => purge s p (.seq a xs) ++ addAll s p (.map b fs)
  | .seq a xs, .set b ns => purge s p (.seq a xs) ++ addAll s p (.set b ns)
  | .map a es, .scalar b y => purge s p (.map a es) ++ addAll s p (.scalar b y)
  | .map a es, .seq b ys => purge s p (.map a es) ++ addAll s p (.seq b ys)
  | .map a es, .set b ns => purge s p (.map a es) ++ addAll s p (.set b ns)
  | .set a ms, .scalar b y => purge s p (.set a ms) ++ addAll s p (.scalar b y)
  | .set a ms, .seq b ys => purge s p (.set a ms) ++ addAll s p (.seq b ys)
  | .set a ms, .map b fs => purge s p (.set a ms) ++ addAll s p (.map b fs)
/-- `_diff_dicts`: keys on both sides are compared, left-only keys deleted (right-only keys are
added by the caller) -/
def diffDict (s : Bool) (c : Cfg) (p : Addr) : List (Key × Node) → List (Key × Node) → List Entry
  | [], _ => []
  | (k, v) :: es, fs =>
    (match fs.lookup k with
     | some w => diffBetween s c (p ++ [.key k]) v w
     | none => [mkDel (p ++ [.key k]) v]) ++ diffDict s c p es fs
/-- `_diff_arrays_of_scalars(diff_deeply=True)` -/
def diffPos (s : Bool) (c : Cfg) (p : Addr) : Nat → List Node → List Node → List Entry
  | i, [], ys => addSeq p i ys
  | i, x :: xs, [] => mkDel (p ++ [.idx i]) x :: diffPos s c p (i + 1) xs []
  | i, x :: xs, y :: ys => diffBetween s c (p ++ [.idx i]) x y ++ diffPos s c p (i + 1) xs ys
/-- `_diff_synced_lists` over `synchronize_lists_by_value`, fused: entries of the matched and of the
unmatched left elements, and the unmatched right elements (still to be added) -/
def diffValue (s : Bool) (c : Cfg) (p : Addr) : Nat → List Node → List (Nat × Node) →
    List Entry × List (Nat × Node)
  | _, [], rem => ([], rem)
  | i, x :: xs, rem =>
    match removeFirst (fun y => eqv y x) rem with
    | some (y, rem') =>
      let rest := diffValue s c p (i + 1) xs rem'
      (diffBetween s c (p ++ [.idx i]) x y.2 ++ rest.1, rest.2)
    | none =>
      let rest := diffValue s c p (i + 1) xs rem
      (mkDel (p ++ [.idx i]) x :: rest.1, rest.2)
/-- `_diff_arrays_of_hashes` over `synchronize_lods_by_key` (KEY and DEEP), fused -/
def diffKey (s : Bool) (c : Cfg) (p : Addr) (deep : Bool) (ka : Key) : Nat → List Node →
    List (Nat × Node) → List Entry
  | _, [], rem => rem.map (fun y => mkAdd (p ++ [.idx y.1]) y.2)
  | i, x :: xs, rem =>
    match removeFirst (keyMatch ka x) rem with
    | some (y, rem') =>
      (if deep then diffBetween s c (p ++ [.idx y.1]) x y.2
       else [scalarEntry (p ++ [.idx i]) x y.2]) ++ diffKey s c p deep ka (i + 1) xs rem'
    | none => mkDel (p ++ [.idx i]) x :: diffKey s c p deep ka (i + 1) xs rem
end

/-- `Differ(config, log, lhs).compare_to(rhs)` followed by `get_report()` (as a multiset) -/
def diff (s : Bool) (c : Cfg) (l r : Node) : List Entry := diffBetween s c [] l r

/-- the code as it is (after `fixes/C06-*`) -/
def report (c : Cfg) (l r : Node) : List Entry := diff false c l r

/-! ## `yaml_diff.print_report` / `main` -/

/-- the `changes_found` flag `print_report` returns -/
def changesFound : List Entry → Bool
  | [] => false
  | e :: es => if e.action != .same then true else changesFound es

/-- `exit_state = 1 if print_report(...) else 0` -/
def exitStatus (rep : List Entry) : Nat := if changesFound rep then 1 else 0

end Ypv.Diff
