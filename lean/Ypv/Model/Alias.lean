import Ypv.Spec.Edit
/-!
# `Processor.alias_nodes` / `_get_anchor_node` / `_alias_nodes` (value model)

`alias_nodes(yaml_path, anchor_path, anchor_name=…)` makes every node matched by `yaml_path` an alias of
the single node matched by `anchor_path`: `_get_anchor_node` gives that node an anchor name (the one
asked for, which must be new to the document; else its own; else a generated unique one) and
`_alias_nodes` stores the anchor node under each matched (parent, reference).  As for the other edits
(DESIGN 8, "decoupling by addresses") the matched addresses are inputs.  In the value model an alias is
an equal node carrying the same anchor name, so the step is: the node at `src` gets the name, and the
node at every target address is replaced by that anchored node.

Core Lean only (this file is linked into the driver).
-/
namespace Ypv.Alias
open Ypv

/-- `node.yaml_set_anchor(name, always_dump=True)` -/
def withAnchor (a : Str) : Node → Node
  | .scalar _ v => .scalar (some a) v
  | .seq _ items => .seq (some a) items
  | .map _ es => .map (some a) es
  | .set _ ms => .set (some a) ms

/-- every anchor name carried by a node of the document (`Anchors.scan_for_anchors`, names only) -/
def anchorsOf : Node → List Str
  | .scalar a _ => a.toList
  | .seq a items => a.toList ++ goList items
  | .map a es => a.toList ++ goEntries es
  | .set a _ => a.toList
where
  goList : List Node → List Str
    | [] => []
    | c :: cs => anchorsOf c ++ goList cs
  goEntries : List (Key × Node) → List Str
    | [] => []
    | (_, c) :: es => anchorsOf c ++ goEntries es

/-- `yaml_set_anchor(new)` on a node that already carries the anchor `old`: in Python the anchored node and
its aliases are ONE object, so every node carrying `old` carries `new` afterwards. -/
def renameAnchor (old new : Str) : Node → Node
  | .scalar a v => .scalar (if a = some old then some new else a) v
  | .seq a items => .seq (if a = some old then some new else a) (goList items)
  | .map a es => .map (if a = some old then some new else a) (goEntries es)
  | .set a ms => .set (if a = some old then some new else a) ms
where
  goList : List Node → List Node
    | [] => []
    | c :: cs => renameAnchor old new c :: goList cs
  goEntries : List (Key × Node) → List (Key × Node)
    | [] => []
    | (k, c) :: es => (k, renameAnchor old new c) :: goEntries es

inductive AliasErr
  /-- "Anchor names must be unique within YAML documents" (`BadAliasYAMLPathException`) -/
  | nameTaken
  /-- `anchor_path` does not lead to a node -/
  | noSource
  deriving DecidableEq, Repr

/-- The name `_get_anchor_node` settles on: the requested one (refused when the document already uses
it), else the node's own, else the generated name `fresh` (an input: `generate_unique_anchor_name`). -/
def settleName (d n : Node) (given : Option Str) (fresh : Str) : Except AliasErr Str :=
  match given with
  | some a => if a ∈ anchorsOf d then .error .nameTaken else .ok a
  | none => match n.anchor with
    | some a => .ok a
    | none => .ok fresh

/-- `alias_nodes`: the document afterwards and the anchored source node. -/
def aliasNodes (d : Node) (src : Addr) (given : Option Str) (fresh : Str) (targets : List Addr) :
    Except AliasErr (Node × Node) :=
  match d.get? src with
  | none => .error .noSource
  | some n =>
    match settleName d n given fresh with
    | .error e => .error e
    | .ok name =>
      let an := withAnchor name (match n.anchor with | some old => if old = name then n else renameAnchor old name n | none => n)
      -- a source that already carries another anchor name is renamed together with all its aliases
      let d0 := match n.anchor with
        | some old => if old = name then d else renameAnchor old name d
        | none => d
      .ok (targets.foldl (fun acc t => acc.graftAt (fun _ => an) t) (d0.graftAt (fun _ => an) src), an)

end Ypv.Alias
