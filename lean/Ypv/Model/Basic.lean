/-!
# Common model: scalars, keys, document nodes, addresses, outcomes

Core Lean only (no Mathlib): these files are linked into the `ypv-driver` executable.
Text is `List Char` everywhere (kernel `decide` reduces it; `String` primitives do not).
-/
namespace Ypv

abbrev Str := List Char

instance {ε α : Type} [DecidableEq ε] [DecidableEq α] : DecidableEq (Except ε α) := fun a b =>
  match a, b with
  | .ok x, .ok y => if h : x = y then isTrue (by rw [h]) else isFalse (by intro e; cases e; exact h rfl)
  | .error x, .error y => if h : x = y then isTrue (by rw [h]) else isFalse (by intro e; cases e; exact h rfl)
  | .ok _, .error _ => isFalse (by intro e; cases e)
  | .error _, .ok _ => isFalse (by intro e; cases e)

/-- "string/integer-like keys": the keys of mappings and the members of sets. -/
inductive Key
  | str (s : Str)
  | int (i : Int)
  deriving DecidableEq, Repr, Inhabited

/-- Scalar values.  A float is the exact decimal `m × 10^e` of its Python `repr`
(the harness only sends floats whose `repr` is a finite decimal of ≤ 15 significant digits),
normalised so that `m` has no trailing zero (and `m = 0 → e = 0`).
`opaque` carries only the Python `str()` of a value the model does not interpret (dates, tags). -/
inductive Scalar
  | null
  | bool (b : Bool)
  | int (i : Int)
  | float (m : Int) (e : Int)
  | str (s : Str)
  | opaque (s : Str)
  deriving DecidableEq, Repr, Inhabited

/-- Documents.  Every node may carry a YAML anchor name.  Aliases are repeated equal
subtrees carrying the same anchor name. -/
inductive Node
  | scalar (anchor : Option Str) (v : Scalar)
  | seq (anchor : Option Str) (items : List Node)
  | map (anchor : Option Str) (entries : List (Key × Node))
  | set (anchor : Option Str) (members : List Key)
  deriving Repr, Inhabited

mutual
def Node.decEq : (a b : Node) → Decidable (a = b)
  | .scalar a v, .scalar a' v' =>
      if h : a = a' ∧ v = v' then isTrue (by rw [h.1, h.2])
      else isFalse (by intro e; cases e; exact h ⟨rfl, rfl⟩)
  | .seq a xs, .seq a' ys =>
      match _root_.decEq a a', Node.decEqList xs ys with
      | isTrue h1, isTrue h2 => isTrue (by rw [h1, h2])
      | isFalse h1, _ => isFalse (by intro e; cases e; exact h1 rfl)
      | _, isFalse h2 => isFalse (by intro e; cases e; exact h2 rfl)
  | .map a xs, .map a' ys =>
      match _root_.decEq a a', Node.decEqEntries xs ys with
      | isTrue h1, isTrue h2 => isTrue (by rw [h1, h2])
      | isFalse h1, _ => isFalse (by intro e; cases e; exact h1 rfl)
      | _, isFalse h2 => isFalse (by intro e; cases e; exact h2 rfl)
  | .set a xs, .set a' ys =>
      if h : a = a' ∧ xs = ys then isTrue (by rw [h.1, h.2])
      else isFalse (by intro e; cases e; exact h ⟨rfl, rfl⟩)
  | .scalar .., .seq .. | .scalar .., .map .. | .scalar .., .set ..
  | .seq .., .scalar .. | .seq .., .map .. | .seq .., .set ..
  | .map .., .scalar .. | .map .., .seq .. | .map .., .set ..
  | .set .., .scalar .. | .set .., .seq .. | .set .., .map .. => isFalse (by intro e; cases e)
def Node.decEqList : (a b : List Node) → Decidable (a = b)
  | [], [] => isTrue rfl
  | [], _ :: _ | _ :: _, [] => isFalse (by intro e; cases e)
  | x :: xs, y :: ys =>
      match Node.decEq x y, Node.decEqList xs ys with
      | isTrue h1, isTrue h2 => isTrue (by rw [h1, h2])
      | isFalse h1, _ => isFalse (by intro e; cases e; exact h1 rfl)
      | _, isFalse h2 => isFalse (by intro e; cases e; exact h2 rfl)
def Node.decEqEntries : (a b : List (Key × Node)) → Decidable (a = b)
  | [], [] => isTrue rfl
  | [], _ :: _ | _ :: _, [] => isFalse (by intro e; cases e)
  | (k, x) :: xs, (k', y) :: ys =>
      match _root_.decEq k k', Node.decEq x y, Node.decEqEntries xs ys with
      | isTrue h0, isTrue h1, isTrue h2 => isTrue (by rw [h0, h1, h2])
      | isFalse h0, _, _ => isFalse (by intro e; cases e; exact h0 rfl)
      | _, isFalse h1, _ => isFalse (by intro e; cases e; exact h1 rfl)
      | _, _, isFalse h2 => isFalse (by intro e; cases e; exact h2 rfl)
end

instance : DecidableEq Node := Node.decEq

/-- One step of an address: a mapping key, a sequence position, or a set member. -/
inductive Ref
  | key (k : Key)
  | idx (i : Nat)
  | member (k : Key)
  deriving DecidableEq, Repr, Inhabited

/-- The address of a node: the references from the document root down to it. -/
abbrev Addr := List Ref

/-- Subclasses of `yamlpath.exceptions.YAMLPathException`. -/
inductive YKind
  | generic | unmatched | typeMismatch | recursion | noDocument | duplicateKey
  deriving DecidableEq, Repr, Inhabited

/-- Python exception types outside the library's own families. -/
inductive CrashKind
  | indexError | typeError | keyError | attributeError | valueError | reError
  | recursionError | other
  deriving DecidableEq, Repr, Inhabited

/-- Outcome classes of a failed operation. -/
inductive Err
  | ypath (k : YKind)
  | merge
  | eyaml
  | crash (k : CrashKind)
  | outOfModel
  deriving DecidableEq, Repr, Inhabited

def Err.isCrash : Err → Bool
  | .crash _ => true
  | _ => false

def Node.anchor : Node → Option Str
  | .scalar a _ | .seq a _ | .map a _ | .set a _ => a

def Node.isScalar : Node → Bool
  | .scalar .. => true
  | _ => false

/-- The child of a node under one reference. -/
def Node.child? : Node → Ref → Option Node
  | .seq _ items, .idx i => items[i]?
  | .map _ es, .key k => es.lookup k
  | .set _ ms, .member k => if ms.contains k then some (.scalar none (match k with | .str s => .str s | .int i => .int i)) else none
  | _, _ => none

/-- The node at an address. -/
def Node.get? : Node → Addr → Option Node
  | n, [] => some n
  | n, r :: rs => match n.child? r with
    | some c => c.get? rs
    | none => none

end Ypv
