import Ypv.Model.Basic
import Ypv.Model.Path
import Ypv.Model.Py
import Ypv.Model.Keyword
/-!
# The evaluator: `Processor._get_required_nodes`, `_get_optional_nodes` (read behaviour),
`_get_nodes_by_path_segment` and its handlers, `exists`, `get_nodes`

Core Lean only.  The model mirrors `/repo/yamlpath/processor.py` *as it is after the fixes
proposed in `fixes/C01-*.patch`, `fixes/C15-*.patch`, `fixes/C02-*.patch`* (see `notes/C01.md`).

* A Python generator is `Gen α = List α × Option Err`: the results yielded, then (maybe) the
  exception raised after them.
* Every partial Python operation used by the handlers (`list[i]`, `x in None`, `str <= int`) is a
  model function with a `crash` outcome (`pyGetItem`, `pyIn`, `pyKeyBetween`); the handlers call
  them behind the guards the (fixed) code has, and `Props/C15.lean` proves the guards suffice.
* The scalar comparison (`Searches.search_matches`) is a parameter `mt`, the evaluation of a search
  attribute that is itself a YAML Path (`YAMLPath(attr)` evaluated by `_get_required_nodes`) is a
  parameter `dsc`; every theorem holds for every `mt` and `dsc`.  `W1.mtCompare rx orc` is the
  matcher built from the comparison model of `Model/Compare.lean` (scalar haystacks), with an
  explicit oracle `orc` for container haystacks and the fenced literal classes.
* KEYWORD_SEARCH segments are evaluated by `kwSearch` of `Model/Keyword.lean` (`kwStep`); the
  document root `rt` is a parameter of the dispatcher because `[parent(n)]` returns an ancestor
  *node*, which the Python code finds in the `ancestry` stack and the model at the ancestor's
  address below `rt`.
-/
namespace Ypv

/-! ## Generators -/

abbrev Gen (α : Type) := List α × Option Err

namespace Gen
variable {α β γ : Type}

def nil : Gen α := ([], none)
def fail (e : Err) : Gen α := ([], some e)
def ofList (l : List α) : Gen α := (l, none)
def one (x : α) : Gen α := ([x], none)

/-- `g`, then `h` (which runs only when `g` ended without raising). -/
def append (g h : Gen α) : Gen α :=
  match g.2 with
  | some _ => g
  | none => (g.1 ++ h.1, h.2)

/-- `for x in l: yield from f x` -/
def bindList (f : α → Gen β) : List α → Gen β
  | [] => nil
  | x :: xs => append (f x) (bindList f xs)

/-- `for x in g: yield from f x` -/
def bind (g : Gen α) (f : α → Gen β) : Gen β :=
  append (bindList f g.1) ([], g.2)

def map (f : α → β) (g : Gen α) : Gen β := (g.1.map f, g.2)

/-- What a consumer that exhausts the generator observes: all results, or the exception. -/
def collapse (g : Gen α) : Except Err (List α) :=
  match g.2 with
  | some e => .error e
  | none => .ok g.1

/-- `for x in l: for _ in p x: yield x; break` — keep the members for which the probe `p` yields at
least one result; an exception raised by a probe before its first result propagates. -/
def filterFirst (p : α → Gen β) : List α → Gen α
  | [] => nil
  | x :: xs =>
    match p x with
    | (_ :: _, _) => append (one x) (filterFirst p xs)
    | ([], some e) => fail e
    | ([], none) => filterFirst p xs

/-- `for r in g: yield x; break` -/
def ifAny (g : Gen β) (x : α) : Gen α :=
  match g with
  | (_ :: _, _) => one x
  | ([], some e) => fail e
  | ([], none) => nil

end Gen

/-! ## Results and their coordinates -/

/-- `NodeCoords.parentref` as the code reports it (a list index may be negative). -/
inductive PRef
  | key (k : Key)
  | idx (i : Int)
  | member (k : Key)
  deriving DecidableEq, Repr, Inhabited

/-- Coordinates of a node: its address, `NodeCoords.parent` (as an address), `.parentref`,
`.ancestry` (parents as addresses), and the sections of the translated `.path`. -/
structure Ctx where
  addr : Addr
  parent : Option Addr
  pref : Option PRef
  anc : List (Addr × PRef)
  path : List Str
  deriving DecidableEq, Repr, Inhabited

def Ctx.root : Ctx := { addr := [], parent := none, pref := none, anc := [], path := [] }

/-- Coordinates of the child reached from `c` by `r` (reported reference `pr`, path section `sec`). -/
def Ctx.child (c : Ctx) (r : Ref) (pr : PRef) (sec : Str) : Ctx :=
  { addr := c.addr ++ [r], parent := some c.addr, pref := some pr,
    anc := c.anc ++ [(c.addr, pr)], path := c.path ++ [sec] }

abbrev NC := Node × Ctx

/-- A result: a document node with its coordinates, or a virtual list (slice) of such. -/
inductive Res
  | real (nc : NC)
  | virt (items : List NC)
  deriving DecidableEq, Repr, Inhabited

/-! ## Python fragments used by the handlers -/

def Key.toScalar : Key → Scalar
  | .str s => .str s
  | .int i => .int i

def Key.toNode (k : Key) : Node := .scalar none k.toScalar

/-- `str(key)` -/
def Key.text : Key → Str
  | .str s => s
  | .int i => pyStrInt i

/-- `YAMLPath.escape_path_section(section, PathSeparators.DOT)`: a backslash before each of
`\ . ( ) [ ] ^ $ % space ' "`. -/
def escSpecial (c : Char) : Bool :=
  c = '\\' || c = '.' || c = '(' || c = ')' || c = '[' || c = ']' || c = '^' || c = '$' || c = '%' ||
  c = ' ' || c = '\'' || c = '"'

def escSectionRaw (s : Str) : Str := s.flatMap (fun c => if escSpecial c then ['\\', c] else [c])

/-- … and (fixes/C02-3) a backslash before a leading `/`, which would otherwise switch the notation
inferred when the reported path is parsed again. -/
def escSection (s : Str) : Str :=
  match escSectionRaw s with
  | '/' :: r => '\\' :: '/' :: r
  | r => r

/-- `"[{}]".format(i)` -/
def idxSection (i : Int) : Str := '[' :: (pyStrInt i ++ [']'])

/-- Python `list[i]` (negative `i` counts from the end); out of range is `IndexError`. -/
def pyGetItem {α : Type} (l : List α) (i : Int) : Except Err α :=
  let j : Int := if i < 0 then i + l.length else i
  if j < 0 then .error (.crash .indexError)
  else match l[j.toNat]? with
    | some x => .ok x
    | none => .error (.crash .indexError)

/-- The guard of the fixed code: `-len(data) <= idx < len(data)`. -/
def inRange (len : Nat) (i : Int) : Bool := decide (-(len : Int) ≤ i) && decide (i < (len : Int))

/-- The non-negative position of an in-range Python index. -/
def normIdx (len : Nat) (i : Int) : Nat := if i < 0 then (i + len).toNat else i.toNat

/-- Python `term in ele`: membership among the keys of a dict / members of a set;
`TypeError` for `None` and the other non-iterables (a str haystack is not needed here). -/
def pyIn (term : Str) : Node → Except Err Bool
  | .map _ es => .ok (es.any (fun kv => kv.1 == Key.str term))
  | .set _ ms => .ok (ms.contains (.str term))
  | .seq _ _ => .error .outOfModel
  | .scalar _ (.str _) => .error .outOfModel
  | .scalar _ _ => .error (.crash .typeError)

/-- Python `a <= b` on `str` (code point order). -/
def ev_strLe : Str → Str → Bool
  | [], _ => true
  | _ :: _, [] => false
  | a :: as, b :: bs => if a.toNat < b.toNat then true else if b.toNat < a.toNat then false else ev_strLe as bs

/-- Python `lo <= key <= hi` with `lo`, `hi` of type `str`: `TypeError` for an `int` key. -/
def pyKeyBetween (lo hi : Str) : Key → Except Err Bool
  | .str s => .ok (ev_strLe lo s && ev_strLe s hi)
  | .int _ => .error (.crash .typeError)

/-- `range(*slice(lo, hi).indices(len))` — the positions Python's `data[lo:hi]` selects. -/
def sliceStart (len : Nat) (i : Int) : Nat :=
  if i < 0 then (if i + len < 0 then 0 else (i + len).toNat) else (if i > len then len else i.toNat)

def sliceIndices (len : Nat) (lo hi : Int) : List Nat :=
  let a := sliceStart len lo
  let b := sliceStart len hi
  (List.range (b - a)).map (· + a)

/-- `Nodes.node_is_aoh(data, accept_nulls=True)` on the elements of a list. -/
def ev_isAoh (items : List Node) : Bool :=
  items.all (fun n => match n with
    | .map .. => true
    | .scalar _ .null => true
    | _ => false)

def Node.evIsNull : Node → Bool
  | .scalar _ .null => true
  | _ => false

def Node.isSeq : Node → Bool
  | .seq .. => true
  | _ => false

/-! ## Segments as the evaluator reads them -/

inductive ESeg
  | key (k : Str)
  | index (i : Int)
  | slice (lo hi : Str)
  | anchor (a : Str)
  | search (inv : Bool) (m : Method) (attr term : Str)
  | matchAll
  | traverse
  | keyword (inv : Bool) (k : Keyword) (params : Str)
  | collector (expr : Str) (op : CollOp)
  | unknown
  deriving DecidableEq, Repr, Inhabited

/-- Split at the first `:` (`str.split(':', 1)`). -/
def splitColon : Str → Option (Str × Str)
  | [] => none
  | c :: cs => if c = ':' then some ([], cs) else
      match splitColon cs with
      | some (a, b) => some (c :: a, b)
      | none => none

def ESeg.ofSeg : Seg → ESeg
  | (.key, .str s) => .key s
  | (.index, .int i) => .index i
  | (.index, .str s) => match splitColon s with
      | some (a, b) => .slice a b
      | none => .unknown
  | (.anchor, .str s) => .anchor s
  | (.search, .search inv m a t) => .search inv m a t
  | (.matchAll, .none) => .matchAll
  | (.traverse, .none) => .traverse
  | (.keywordSearch, .keyword inv k p) => .keyword inv k p
  | (.collector, .collector e op) => .collector e op
  | _ => .unknown

def ESeg.isTraverse : ESeg → Bool
  | .traverse => true
  | _ => false

def ESeg.isKeyword : ESeg → Bool
  | .keyword .. => true
  | _ => false

/-- The keyword segments that group members by value in a Python `dict`: `unique`, `distinct`. -/
def ESeg.grouping : ESeg → Bool
  | .keyword _ .unique _ => true
  | .keyword _ .distinct _ => true
  | _ => false

/-- Segment kinds `_get_optional_nodes` creates when nothing matches. -/
def ESeg.creates : ESeg → Bool
  | .search .. | .keyword .. | .matchAll | .traverse => false
  | _ => true

def Res.isNullNode : Res → Bool
  | .real (n, _) => n.evIsNull
  | .virt _ => false

/-- The matcher `Searches.search_matches(method, term, haystack)`; the haystack is a document node
(a key or a set member is passed as an unanchored scalar node). -/
abbrev Matcher := Method → Node → Str → Except Err Bool

/-- Evaluation of a search attribute that is a YAML Path below a node
(`_get_required_nodes(node, YAMLPath(attr), 0, …)`). -/
abbrev Desc := Str → Node → Ctx → Gen Res

namespace Eval

/-! ## Children with coordinates -/

def seqKidsFrom (c : Ctx) : List Node → Nat → List NC
  | [], _ => []
  | n :: ns, i => (n, c.child (.idx i) (.idx i) (idxSection i)) :: seqKidsFrom c ns (i + 1)

def mapKids (c : Ctx) (es : List (Key × Node)) : List NC :=
  es.map (fun kv => (kv.2, c.child (.key kv.1) (.key kv.1) (escSection kv.1.text)))

def setKids (c : Ctx) (ms : List Key) : List NC :=
  ms.map (fun k => (k.toNode, c.child (.member k) (.member k) (escSection k.text)))

/-- Every immediate child (what an unfiltered `*` yields). -/
def kids : Node → Ctx → List NC
  | .scalar .., _ => []
  | .seq _ items, c => seqKidsFrom c items 0
  | .map _ es, c => mapKids c es
  | .set _ ms, c => setKids c ms

/-- The children `**` and a filtered `*` descend into (not the members of a set). -/
def deepKids : Node → Ctx → List NC
  | .seq _ items, c => seqKidsFrom c items 0
  | .map _ es, c => mapKids c es
  | _, _ => []

def real (nc : NC) : Res := .real nc
def reals (l : List NC) : Gen Res := Gen.ofList (l.map Res.real)

/-! ## KEY -/

/-- `_get_nodes_by_key` on a dict. -/
def keyOnMap (k : Str) (es : List (Key × Node)) (c : Ctx) : Gen NC :=
  match es.lookup (.str k) with
  | some v => Gen.one (v, c.child (.key (.str k)) (.key (.str k)) (escSection k))
  | none =>
    match pyInt? k with
    | some i =>
      match es.lookup (.int i) with
      | some v => Gen.one (v, c.child (.key (.int i)) (.key (.int i)) (escSection k))
      | none => Gen.nil
    | none => Gen.nil

/-- The bare-index branch of `_get_nodes_by_key` / `_get_nodes_by_index` on a list
(with the lower-bound guard of the fix). -/
def elemAt (items : List Node) (i : Int) (c : Ctx) : Gen NC :=
  if inRange items.length i then
    match pyGetItem items i with
    | .ok x => Gen.one (x, c.child (.idx (normIdx items.length i)) (.idx i) (idxSection i))
    | .error e => Gen.fail e
  else Gen.nil

/-- KEY on a set: the first member whose `str()` is the key text (fixed code: an integer member
is found by its digits, as integer keys of a dict are). -/
def keyOnSet (k : Str) (ms : List Key) (c : Ctx) : Gen NC :=
  match ms.find? (fun m => m.text == k) with
  | some m => Gen.one (m.toNode, c.child (.member m) (.member m) (escSection k))
  | none => Gen.nil

/-- `_get_nodes_by_key` (the pass-through over the elements of a list re-enters the dispatcher on
the same KEY segment, hence this function). -/
def keyStep (k : Str) (tl : Bool) : Node → Ctx → Gen NC
  | .map _ es, c => keyOnMap k es c
  | .seq _ items, c =>
    match pyInt? k with
    | some i => elemAt items i c
    | none => if tl then passThrough k tl c items 0 else Gen.nil
  | .set _ ms, c => keyOnSet k ms c
  | .scalar .., _ => Gen.nil
where
  passThrough (k : Str) (tl : Bool) (c : Ctx) : List Node → Nat → Gen NC
    | [], _ => Gen.nil
    | n :: ns, i =>
      Gen.append (keyStep k tl n (c.child (.idx i) (.idx i) (idxSection i))) (passThrough k tl c ns (i + 1))

/-! ## INDEX and slices -/

def indexStep (i : Int) : Node → Ctx → Gen NC
  | .seq _ items, c => elemAt items i c
  | .set .., _ => Gen.fail (.ypath .generic)
  | _, _ => Gen.nil

/-- The members of a list slice, with their coordinates. -/
def sliceItems (items : List Node) (c : Ctx) (ixs : List Nat) : Except Err (List NC) :=
  ixs.mapM (fun (j : Nat) => match pyGetItem items (Int.ofNat j) with
    | .ok x => .ok (x, c.child (.idx j) (.idx (Int.ofNat j)) (idxSection (Int.ofNat j)))
    | .error e => .error e)

def sliceOnSeq (lo hi : Str) (items : List Node) (c : Ctx) : Gen Res :=
  match pyInt? lo, pyInt? hi with
  | some a, some b =>
    if a = b ∧ inRange items.length a = true then
      match pyGetItem items a with
      | .ok x => Gen.one (.virt [(x, c.child (.idx (normIdx items.length a)) (.idx a) (idxSection a))])
      | .error e => Gen.fail e
    else
      match sliceItems items c (sliceIndices items.length a b) with
      | .ok l => Gen.one (.virt l)
      | .error e => Gen.fail e
  | _, _ => Gen.fail (.ypath .typeMismatch)

/-- Hash slice `[lo:hi]` (fixed code compares `str(key)`). -/
def sliceOnMap (lo hi : Str) (c : Ctx) : List (Key × Node) → Gen NC
  | [] => Gen.nil
  | (k, v) :: es =>
    match pyKeyBetween lo hi (.str k.text) with
    | .ok true => Gen.append (Gen.one (v, c.child (.key k) (.key k) (escSection k.text))) (sliceOnMap lo hi c es)
    | .ok false => sliceOnMap lo hi c es
    | .error e => Gen.fail e

def sliceOnSet (lo hi : Str) (c : Ctx) : List Key → Gen NC
  | [] => Gen.nil
  | k :: ks =>
    match pyKeyBetween lo hi (.str k.text) with
    | .ok true => Gen.append (Gen.one (k.toNode, c.child (.member k) (.member k) (escSection k.text))) (sliceOnSet lo hi c ks)
    | .ok false => sliceOnSet lo hi c ks
    | .error e => Gen.fail e

def sliceStep (lo hi : Str) : Node → Ctx → Gen Res
  | .seq _ items, c => sliceOnSeq lo hi items c
  | .map _ es, c => (sliceOnMap lo hi c es).map Res.real
  | .set _ ms, c => (sliceOnSet lo hi c ms).map Res.real
  | .scalar .., _ => Gen.nil

/-! ## ANCHOR -/

/-- `"[&{}]".format(escape_path_section(anchor))` — the path section every anchor match reports. -/
def anchorSection (a : Str) : Str := '[' :: '&' :: (escSection a ++ [']'])

/-- The child coordinates of an anchor match: as for `*`, but the path names the anchor. -/
def anchorKids (a : Str) : Node → Ctx → List NC
  | .seq _ items, c => go c items 0
  | .map _ es, c => es.map (fun kv => (kv.2, c.child (.key kv.1) (.key kv.1) (anchorSection a)))
  | _, _ => []
where
  go (c : Ctx) : List Node → Nat → List NC
    | [], _ => []
    | n :: ns, i => (n, c.child (.idx i) (.idx i) (anchorSection a)) :: go c ns (i + 1)

def anchorStep (a : Str) (n : Node) (c : Ctx) : Gen NC :=
  Gen.ofList ((anchorKids a n c).filter (fun nc => nc.1.anchor == some a))

/-! ## SEARCH -/

def hit (inv : Bool) (b : Bool) : Bool := b != inv

/-- `yield x` when the comparison (xor inversion) holds; an exception of the matcher propagates. -/
def yieldIf (inv : Bool) (r : Except Err Bool) (x : NC) : Gen NC :=
  match r with
  | .ok b => if hit inv b then Gen.one x else Gen.nil
  | .error e => Gen.fail e

/-- The comparison against the first node the attribute path selects below an element
(`for desc_node in …: matches = …; break`; no node: no match). -/
def descFirst (mt : Matcher) (m : Method) (term : Str) (g : Gen Res) : Except Err Bool :=
  match g with
  | (.real (n, _) :: _, _) => mt m n term
  | (.virt _ :: _, _) => .error .outOfModel
  | ([], some e) => .error e
  | ([], none) => .ok false

/-- One element of a list under a SEARCH segment. -/
def searchElem (mt : Matcher) (dsc : Desc) (m : Method) (attr term : Str) (aoh : Bool) (x : NC) :
    Except Err Bool :=
  if attr = ['.'] then
    if aoh && !x.1.evIsNull then
      match pyIn term x.1 with
      | .ok true => .ok true
      | .ok false => mt m x.1 term
      | .error e => .error e
    else mt m x.1 term
  else
    match x.1 with
    | .map _ es =>
      match es.lookup (.str attr) with
      | some v => mt m v term
      | none => descFirst mt m term (dsc attr x.1 x.2)
    | _ => descFirst mt m term (dsc attr x.1 x.2)

def searchList (mt : Matcher) (dsc : Desc) (inv : Bool) (m : Method) (attr term : Str) (aoh : Bool) :
    List NC → Gen NC
  | [] => Gen.nil
  | x :: xs => Gen.append (yieldIf inv (searchElem mt dsc m attr term aoh x) x)
      (searchList mt dsc inv m attr term aoh xs)

/-- Key names / set members compared by `.`. -/
def searchNames (mt : Matcher) (inv : Bool) (m : Method) (term : Str) : List (Key × NC) → Gen NC
  | [] => Gen.nil
  | (k, x) :: xs => Gen.append (yieldIf inv (mt m k.toNode term) x) (searchNames mt inv m term xs)

/-- The descendant search on a dict: is there a selected node that satisfies the comparison
(`for desc_node in …: matches = …; if hit: break`)?  `seen`: a node was compared already. -/
def descAny (mt : Matcher) (inv : Bool) (m : Method) (term : Str) : List Res → Option Err → Bool → Except Err Bool
  | [], some e, _ => .error e
  | [], none, seen => .ok (if seen then false else hit inv false)
  | .real (n, _) :: rs, e, _ =>
    match mt m n term with
    | .ok b => if hit inv b then .ok true else descAny mt inv m term rs e true
    | .error e' => .error e'
  | .virt _ :: _, _, _ => .error .outOfModel

def searchMap (mt : Matcher) (dsc : Desc) (inv : Bool) (m : Method) (attr term : Str)
    (a : Option Str) (es : List (Key × Node)) (c : Ctx) : Gen NC :=
  if attr = ['.'] then
    searchNames mt inv m term (es.map (fun kv => (kv.1, (kv.2, c.child (.key kv.1) (.key kv.1) (escSection kv.1.text)))))
  else
    match es.lookup (.str attr) with
    | some v => yieldIf inv (mt m v term) (v, c.child (.key (.str attr)) (.key (.str attr)) (escSection attr))
    | none =>
      let g := dsc attr (.map a es) c
      match descAny mt inv m term g.1 g.2 false with
      | .ok true => Gen.one (.map a es, c)
      | .ok false => Gen.nil
      | .error e => Gen.fail e

def searchStep (mt : Matcher) (dsc : Desc) (inv : Bool) (m : Method) (attr term : Str) (tl : Bool) :
    Node → Ctx → Gen NC
  | .seq _ items, c =>
    if tl then searchList mt dsc inv m attr term (ev_isAoh items) (seqKidsFrom c items 0) else Gen.nil
  | .map a es, c => searchMap mt dsc inv m attr term a es c
  | .set _ ms, c => searchNames mt inv m term (ms.map (fun k => (k, (k.toNode, c.child (.member k) (.member k) (escSection k.text)))))
  | .scalar a v, c => yieldIf inv (mt m (.scalar a v) term) (.scalar a v, c)

/-! ## `**` -/

/-- Pre-order walk applying `f` at every node, descending through dicts and lists
(`_get_nodes_by_traversal`). -/
def walk (f : Node → Ctx → Gen NC) : Node → Ctx → Gen NC
  | .scalar a v, c => f (.scalar a v) c
  | .set a ms, c => f (.set a ms) c
  | .seq a items, c => Gen.append (f (.seq a items) c) (walkSeq f c items 0)
  | .map a es, c => Gen.append (f (.map a es) c) (walkMap f c es)
where
  walkSeq (f : Node → Ctx → Gen NC) (c : Ctx) : List Node → Nat → Gen NC
    | [], _ => Gen.nil
    | n :: ns, i => Gen.append (walk f n (c.child (.idx i) (.idx i) (idxSection i))) (walkSeq f c ns (i + 1))
  walkMap (f : Node → Ctx → Gen NC) (c : Ctx) : List (Key × Node) → Gen NC
    | [] => Gen.nil
    | (k, n) :: es => Gen.append (walk f n (c.child (.key k) (.key k) (escSection k.text))) (walkMap f c es)

/-- What the leaf mode of `**` yields at one node: a scalar (also `None`), the members of a set. -/
def leafAt : Node → Ctx → Gen NC
  | .scalar a v, c => Gen.one (.scalar a v, c)
  | .set _ ms, c => Gen.ofList (setKids c ms)
  | _, _ => Gen.nil

/-! ## KEYWORD_SEARCH -/

/-- `NodeCoords.ancestry[-k]`…: the coordinates of the ancestor `k` levels up (what
`KeywordSearches.parent` leaves after popping `k` entries of `ancestry` and `k` segments of
`translated_path`; `parent` / `parentref` are those of the last remaining ancestry entry). -/
def ctxUp (c : Ctx) (k : Nat) : Ctx :=
  let anc := c.anc.take (c.anc.length - k)
  { addr := c.addr.take (c.addr.length - k),
    parent := anc.getLast?.map (·.1), pref := anc.getLast?.map (·.2),
    anc := anc, path := c.path.take (c.path.length - k) }

/-- The node `name()` yields: `parentref` itself (a key, a set member, a list index as it was
written — possibly negative —, `None` at the root). -/
def prefNode : Option PRef → Node
  | some (.key k) => k.toNode
  | some (.member k) => k.toNode
  | some (.idx i) => .scalar none (.int i)
  | none => .scalar none .null

/-- The child of `n` under a reference, with the coordinates the keyword searches give it
(`NodeCoords(ele, data, idx, translated_path + "[idx]", ancestry + [(data, idx)])`, and the same
with an escaped key). -/
def kwChild (n : Node) (c : Ctx) : Ref → Option NC
  | .idx i =>
    match n with
    | .seq _ items => items[i]?.map (fun x => (x, c.child (.idx i) (.idx i) (idxSection i)))
    | _ => none
  | .key k =>
    match n with
    | .map _ es => (es.lookup k).map (fun v => (v, c.child (.key k) (.key k) (escSection k.text)))
    | _ => none
  | .member _ => none

/-- The node and coordinates at an address `kwSearch` returned for the node `n` at `c`: the node
itself, one of its children, or an ancestor (found at its address below the document root `rt`);
any other address is refused. -/
def kwResolve (rt n : Node) (c : Ctx) (a : Addr) : Option NC :=
  if a = c.addr then some (n, c)
  else if a.length < c.addr.length then
    if a = c.addr.take a.length then
      match rt.get? a with
      | some m => some (m, ctxUp c (c.addr.length - a.length))
      | none => none
    else none
  else
    match a.getLast? with
    | some r => if a = c.addr ++ [r] then kwChild n c r else none
    | none => none

def kwResolveAll (rt n : Node) (c : Ctx) : List Addr → Option (List NC)
  | [] => some []
  | a :: as =>
    match kwResolve rt n c a, kwResolveAll rt n c as with
    | some x, some xs => some (x :: xs)
    | _, _ => none

/-- `_get_nodes_by_keyword_search` = `KeywordSearches.search_matches(terms, data, …)`: the results
of `kwSearch` (addresses) as nodes with coordinates.  All keyword searches finish their
computation — and raise, if they raise — before their first result. -/
def kwStep (rt : Node) (inv : Bool) (k : Keyword) (params : Str) (n : Node) (c : Ctx) : Gen NC :=
  match kwSearch n c.addr inv k params with
  | .error e => Gen.fail e
  | .ok (.name _) => Gen.one (prefNode c.pref, c)
  | .ok (.nodes as) =>
    match kwResolveAll rt n c as with
    | some l => Gen.ofList l
    | none => Gen.fail .outOfModel

/-! ## The dispatcher -/

/-- The probe of a following segment made by `*` and `**`
(`_get_nodes_by_path_segment(child, yaml_path, next_segment_idx, …)`): two consecutive `**` are
refused. -/
def recursionGuard (prevTrav : Bool) (nxt : ESeg) (g : Gen Res) : Gen Res :=
  if prevTrav && nxt.isTraverse then Gen.fail (.ypath .recursion) else g

variable (mt : Matcher) (dsc : Desc) (rt : Node)

/-- `_get_nodes_by_path_segment`: the nodes one segment selects at a node; `rest` are the
following segments (`*` and `**` probe the next one), `tl` is `traverse_lists`. -/
def stepSeg : (seg : ESeg) → (rest : List ESeg) → (tl : Bool) → Node → Ctx → Gen Res
  | .key k, _, tl, n, c => (keyStep k tl n c).map Res.real
  | .index i, _, _, n, c => (indexStep i n c).map Res.real
  | .slice lo hi, _, _, n, c => sliceStep lo hi n c
  | .anchor a, _, _, n, c => (anchorStep a n c).map Res.real
  | .search inv m attr term, _, tl, n, c => (searchStep mt dsc inv m attr term tl n c).map Res.real
  | .matchAll, [], _, n, c => reals (kids n c)
  | .matchAll, nxt :: rest', _, n, c =>
      (Gen.filterFirst (fun x => stepSeg nxt rest' true x.1 x.2) (deepKids n c)).map Res.real
  | .traverse, [], _, n, c => (walk leafAt n c).map Res.real
  | .traverse, nxt :: rest', _, n, c =>
      (walk (fun m cm => Gen.ifAny (recursionGuard true nxt (stepSeg nxt rest' false m cm)) (m, cm)) n c).map Res.real
  | .keyword inv k p, _, _, n, c => (kwStep rt inv k p n c).map Res.real
  | .collector .., _, _, _, _ => Gen.fail .outOfModel
  | .unknown, _, _, _, _ => Gen.fail .outOfModel

/-- A segment applied to a virtual list (the result of a slice): only the Array-of-Hashes
pass-through of a KEY is modelled. -/
def stepVirt (seg : ESeg) (items : List NC) : Gen Res :=
  match seg with
  | .key k =>
    match pyInt? k with
    | none => (Gen.bindList (fun x => keyStep k true x.1 x.2) items).map Res.real
    | some _ => Gen.fail .outOfModel
  | _ => Gen.fail .outOfModel

def stepRes (seg : ESeg) (rest : List ESeg) : Res → Gen Res
  | .real (n, c) => stepSeg mt dsc rt seg rest true n c
  | .virt items => stepVirt seg items

/-- `_get_required_nodes` -/
def required : List ESeg → Res → Gen Res
  | [], r => Gen.one r
  | s :: rest, r => Gen.bind (stepRes mt dsc rt s rest r) (required rest)

/-- `_get_optional_nodes`, read behaviour: where the code would create a missing node the model
stops with `outOfModel` (creation belongs to another property). -/
def optional : List ESeg → Res → Gen Res
  | [], r => Gen.one r
  | s :: rest, r =>
    let g := stepRes mt dsc rt s rest r
    Gen.append
      (Gen.bind g (fun r' => if r'.isNullNode then Gen.one r' else optional rest r'))
      (if g.1.isEmpty && s.creates then Gen.fail .outOfModel else Gen.nil)

/-- `Processor.get_nodes(path, mustexist=True)` on a document. -/
def getRequired (segs : List ESeg) (d : Node) : Gen Res :=
  if d.evIsNull then Gen.nil else
  let g := required mt dsc d segs (.real (d, Ctx.root))
  Gen.append g (if g.1.isEmpty then Gen.fail (.ypath .unmatched) else Gen.nil)

/-- `Processor.exists(path)` -/
def existsQ (segs : List ESeg) (d : Node) : Except Err Bool :=
  if d.evIsNull then .ok false else
  match (required mt dsc d segs (.real (d, Ctx.root))).collapse with
  | .ok l => .ok (!l.isEmpty)
  | .error e => .error e

/-- `Processor.get_nodes(path, mustexist=False)` on a document (read behaviour). -/
def getOptional (segs : List ESeg) (d : Node) : Gen Res :=
  if d.evIsNull then Gen.nil else optional mt dsc d segs (.real (d, Ctx.root))

end Eval

/-- No nested evaluation available (used for the attribute paths themselves). -/
def Desc.none : Desc := fun _ _ _ => Gen.fail .outOfModel

/-- The descendant evaluation given a reading of attribute texts as segments:
`YAMLPath(attr)` parsed, then `_get_required_nodes` (searches nested inside an attribute path are
outside the model). -/
def Desc.ofParser (mt : Matcher) (rt : Node) (parseAttr : Str → Except Err (List ESeg)) : Desc :=
  fun attr n c =>
    match parseAttr attr with
    | .ok segs => Eval.required mt Desc.none rt segs (.real (n, c))
    | .error e => Gen.fail e


/-! ## The matcher of the comparison model -/
namespace W1

/-- `Searches.search_matches(method, term, haystack)` by the comparison model of
`Model/Compare.lean` for a scalar haystack (a key or set member arrives as an unanchored scalar
node; an anchor does not take part in the comparison).  `orc` is an explicit oracle for what that
model does not cover: container haystacks (the code compares their Python `str()`, which is not
modelled) and scalars / terms in the fenced literal classes (`Typed.unmodelled`). -/
def mtCompare (rx : Str → Str → Option Bool) (orc : Matcher) : Matcher := fun m n t =>
  match n with
  | .scalar _ v =>
    match searchMatches rx m v t with
    | .error .outOfModel => orc m n t
    | r => r
  | _ => orc m n t

/-- No oracle: everything outside the comparison model is `outOfModel`. -/
def noOracle : Matcher := fun _ _ _ => .error .outOfModel

end W1

end Ypv
