import Ypv.Model.Basic
import Ypv.Model.Path
import Ypv.Model.Py
/-!
# Typed comparison: `Nodes.typed_value`, Python `str()` of scalars, `Searches.search_matches`

Mirrors `yamlpath/common/nodes.py:typed_value` (the `ast.literal_eval` fragment described in
DESIGN.md 3.1), Python `str()`/`repr()` of scalars in the decimal float domain, and
`yamlpath/common/searches.py:search_matches` branch for branch — *as it reads after the proposed
repair `fixes/C12-1.patch`* (a Boolean is not a number: `bool` is excluded from the numeric
`isinstance(…, int)` tests).  Regular expressions are not modelled: `rx pattern text` is an oracle
(`some b` = `re.search` found / did not find, `none` = `re.compile` raised).
-/
namespace Ypv

/-- What `Nodes.typed_value` makes of a value.  `text s` is "the value itself" (a string that is
not a Python literal, or a non-string object of which only `str()` is used); `unmodelled` marks
texts outside the modelled token classes (quoted literals, tuples, comments, hex, complex …). -/
inductive Typed
  | null
  | bool (b : Bool)
  | int (i : Int)
  | float (m : Int) (e : Int)
  | text (s : Str)
  | unmodelled
  deriving DecidableEq, Repr, Inhabited

/-! ## Python `str()` -/

def padExp2 (n : Nat) : Str := if n < 10 then '0' :: natDigits n else natDigits n

/-- `repr(float)` of the decimal `m × 10^e` (`m` without trailing zeros): fixed notation when the
decimal point position `decpt = #digits + e` satisfies `-4 < decpt ≤ 16`, scientific otherwise. -/
def pyReprFloat (m e : Int) : Str :=
  if m = 0 then "0.0".toList else
  let ds := natDigits m.natAbs
  let n : Int := ds.length
  let decpt : Int := n + e
  let body : Str :=
    if -4 < decpt ∧ decpt ≤ 16 then
      if decpt ≤ 0 then '0' :: '.' :: (List.replicate (-decpt).toNat '0' ++ ds)
      else if decpt ≥ n then ds ++ List.replicate (decpt - n).toNat '0' ++ ['.', '0']
      else ds.take decpt.toNat ++ '.' :: ds.drop decpt.toNat
    else
      let x : Int := decpt - 1
      let mant : Str := match ds with
        | [] => []
        | [d] => [d]
        | d :: rest => d :: '.' :: rest
      mant ++ 'e' :: (if x < 0 then '-' else '+') :: padExp2 x.natAbs
  if m < 0 then '-' :: body else body

def pyStrBool (b : Bool) : Str := if b then "True".toList else "False".toList

/-- Python `str()` of a scalar value. -/
def pyStr : Scalar → Str
  | .null => "None".toList
  | .bool b => pyStrBool b
  | .int i => pyStrInt i
  | .float m e => pyReprFloat m e
  | .str s => s
  | .opaque s => s

/-- Python `str()` of a typed value. -/
def Typed.pyStr : Typed → Str
  | .null => "None".toList
  | .bool b => pyStrBool b
  | .int i => pyStrInt i
  | .float m e => pyReprFloat m e
  | .text s => s
  | .unmodelled => []

/-! ## `Nodes.typed_value` on text -/

def lowerAscii (c : Char) : Char := if 'A' ≤ c ∧ c ≤ 'Z' then Char.ofNat (c.toNat + 32) else c

def isBlank (c : Char) : Bool := c = ' ' || c = '\t'

def stripBlanks (s : Str) : Str := ((s.dropWhile isBlank).reverse.dropWhile isBlank).reverse

/-- `lower_value in ("true", "false")` -/
def boolSpelling? (s : Str) : Option Bool :=
  let l := s.map lowerAscii
  if l = "true".toList then some true else if l = "false".toList then some false else none

/-- Characters that may start or embed a Python literal the model does not interpret, and
control characters (the tokenizer treats some of them as white space). -/
def isHazard (c : Char) : Bool :=
  c = '\'' || c = '"' || c = '#' || c = ',' || c = '(' || c = ')' || c = '[' || c = ']'
    || c = '{' || c = '}' || c = '\\' || (c.toNat < 32 && c != '\t') || c.toNat = 127

def isAsciiLetter (c : Char) : Bool := ('a' ≤ c && c ≤ 'z') || ('A' ≤ c && c ≤ 'Z')

/-- Python `digitpart` = `digit (_? digit)*`, read greedily: the digits and the unread rest.
`afterDigit` says whether an underscore may be skipped here. -/
def takeDigitPart : Str → Bool → Str × Str
  | [], _ => ([], [])
  | c :: cs, afterDigit =>
    if isDigit c then
      let (ds, r) := takeDigitPart cs true
      (c :: ds, r)
    else if c = '_' && afterDigit then
      match cs with
      | d :: _ => if isDigit d then takeDigitPart cs false else ([], c :: cs)
      | [] => ([], c :: cs)
    else ([], c :: cs)

def natOfDigits (ds : Str) : Nat := ds.foldl (fun acc c => acc * 10 + digitVal c) 0

def dropTrailingZeros (ds : Str) : Str := (ds.reverse.dropWhile (· = '0')).reverse

def dropLeadingZeros (ds : Str) : Str := ds.dropWhile (· = '0')

/-- An exponent part `[eE] [+-]? digitpart` at the head of the text: the exponent and the rest;
`none` if the text starts with `e`/`E` but no well-formed exponent follows. -/
def takeExponent (s : Str) : Option (Int × Str) :=
  match s with
  | c :: r =>
    if c = 'e' || c = 'E' then
      let (neg, r1) := match r with
        | '-' :: r' => (true, r')
        | '+' :: r' => (false, r')
        | _ => (false, r)
      let (ds, r2) := takeDigitPart r1 false
      if ds.isEmpty then none
      else some (if neg then -(natOfDigits ds : Int) else (natOfDigits ds : Int), r2)
    else some (0, s)
  | [] => some (0, [])

def startsWithExp (s : Str) : Bool :=
  match s with
  | c :: _ => c = 'e' || c = 'E'
  | [] => false

/-- The float denoted by the digits `ip.fp × 10^x` with sign `neg`, in the model's decimal
domain (≤ 15 significant digits, decimal point position within ±300, no negative zero). -/
def mkFloat (neg : Bool) (ip fp : Str) (x : Int) : Typed :=
  let all := ip ++ fp
  let kept := dropTrailingZeros all
  let e : Int := x - (fp.length : Int) + ((all.length - kept.length : Nat) : Int)
  let sig := dropLeadingZeros kept
  if sig.isEmpty then (if neg then .unmodelled else .float 0 0)
  else if sig.length > 15 then .unmodelled
  else
    let decpt : Int := (sig.length : Int) + e
    if decpt < -300 || decpt > 300 then .unmodelled
    else
      let m : Int := natOfDigits sig
      .float (if neg then -m else m) e

/-- A numeric-looking text `r` (sign and blanks removed; first character a digit or `.`):
a decimal integer, a float, or — when malformed — the text `whole` itself. -/
def numberLiteral (neg : Bool) (r whole : Str) : Typed :=
  let (ip, r1) := takeDigitPart r false
  match r1 with
  | [] =>
    -- decimal integer: `0(_?0)*` or `[1-9](_?[0-9])*`
    if ip.isEmpty then .text whole
    else if ip.head? = some '0' && !(ip.all (· = '0')) then .text whole
    else .int (if neg then -(natOfDigits ip : Int) else (natOfDigits ip : Int))
  | c :: r1' =>
    let (fp, r2, point) :=
      if c = '.' then
        let (fp, r2) := takeDigitPart r1' false
        (fp, r2, true)
      else ([], r1, false)
    if ip.isEmpty && fp.isEmpty then .text whole
    else if !point && !startsWithExp r2 then .text whole
    else match takeExponent r2 with
      | none => .text whole
      | some (x, r3) => if r3.isEmpty then mkFloat neg ip fp x else .text whole

/-- `Nodes.typed_value(text)`: `ast.literal_eval` after the any-case `true`/`false` rewriting;
`ValueError`/`SyntaxError` leave the text itself. -/
def typedValue (s : Str) : Typed :=
  if s.any isHazard then .unmodelled else
  match boolSpelling? s with
  | some b => .bool b
  | none =>
    let t := stripBlanks s
    if t = "True".toList then .bool true
    else if t = "False".toList then .bool false
    else if t = "None".toList then .null
    else if !t.isEmpty && t.all (· = '.') then .unmodelled
    else
      let (neg, r) := match t with
        | '-' :: r => (true, r.dropWhile isBlank)
        | '+' :: r => (false, r.dropWhile isBlank)
        | r => (false, r)
      match r with
      | c :: _ =>
        if isDigit c || c = '.' then
          if r.any (fun x => isAsciiLetter x && x != 'e' && x != 'E') then .unmodelled
          else numberLiteral neg r s
        else .text s
      | [] => .text s

/-- `Nodes.typed_value(value)` for a scalar: strings are literal-evaluated, every other value is
itself (`literal_eval` of a non-string raises `ValueError`; a `bool` is re-read from `True`/`False`). -/
def typedOfScalar : Scalar → Typed
  | .null => .null
  | .bool b => .bool b
  | .int i => .int i
  | .float m e => .float m e
  | .str s => typedValue s
  | .opaque s => .text s

/-! ## Comparisons -/

/-- Exact comparison of the decimals `m₁ × 10^e₁` and `m₂ × 10^e₂`. -/
def decCmp (m1 e1 m2 e2 : Int) : Ordering :=
  let lo := min e1 e2
  compare (m1 * (10 : Int) ^ (e1 - lo).toNat) (m2 * (10 : Int) ^ (e2 - lo).toNat)

/-- Python `<` on `str`: lexicographic by code point. -/
def strLt : Str → Str → Bool
  | [], [] => false
  | [], _ :: _ => true
  | _ :: _, [] => false
  | a :: as, b :: bs => if a.toNat < b.toNat then true else if b.toNat < a.toNat then false else strLt as bs

def strLe (a b : Str) : Bool := !strLt b a

def isPrefix : Str → Str → Bool
  | [], _ => true
  | _ :: _, [] => false
  | a :: as, b :: bs => a = b && isPrefix as bs

/-- `text.startswith(p)` -/
def pyStartsWith (text p : Str) : Bool := isPrefix p text
/-- `text.endswith(p)` -/
def pyEndsWith (text p : Str) : Bool := isPrefix p.reverse text.reverse
/-- `p in text` -/
def pyContains : Str → Str → Bool
  | [], p => p.isEmpty
  | c :: cs, p => isPrefix p (c :: cs) || pyContains cs p

/-- The numeric value `(m, e)` of an `int` or `float` for the equality ladder (a Boolean is not a
number there: `isinstance(…, int) and not isinstance(…, bool)`). -/
def Typed.num? : Typed → Option (Int × Int)
  | .int i => some (i, 0)
  | .float m e => some (m, e)
  | _ => none

/-- The numeric value for the ordering ladders: `isinstance(…, (int, float))`, under which Python
counts `True`/`False` as `1`/`0` (the pinned test-suite relies on it: `test_wiki_min_max`). -/
def Typed.ordNum? : Typed → Option (Int × Int)
  | .bool b => some (if b then 1 else 0, 0)
  | .int i => some (i, 0)
  | .float m e => some (m, e)
  | _ => none

/-- One of the four ordering ladders of `search_matches`; `ok` says which outcomes of the
three-way comparison satisfy the operator, `txt` is the operator on `str`;
`hay` is `str(haystack)`, `needle` is `str(needle)`. -/
def orderLadder (ok : Ordering → Bool) (txt : Str → Str → Bool) (th tn : Typed) (hay needle : Str) : Bool :=
  match th with
  | .bool b =>                         -- isinstance(typed_haystack, int): bool is an int
    match tn.ordNum? with
    | some (m, e) => ok (decCmp (if b then 1 else 0) 0 m e)
    | none => false
  | .int i =>
    match tn.ordNum? with
    | some (m, e) => ok (decCmp i 0 m e)
    | none => false
  | .float hm he =>
    match tn.ordNum? with
    | some (m, e) => ok (decCmp hm he m e)
    | none => false
  | _ => txt hay needle

/-- The body of `Searches.search_matches` on the two typed values, `str(haystack)` and
`str(needle)`. -/
def searchTyped (rx : Str → Str → Option Bool) (m : Method) (th tn : Typed) (hay needle : Str) :
    Except Err Bool :=
  if th = .unmodelled || tn = .unmodelled then .error .outOfModel else
  match m with
  | .equals =>
    match th, tn with
    | .bool a, .bool b => .ok (a == b)
    | .int a, .int b => .ok (a == b)
    | .float m1 e1, .float m2 e2 => .ok (decCmp m1 e1 m2 e2 == .eq)
    | _, _ => .ok (hay == needle)
  | .startsWith => .ok (pyStartsWith hay needle)
  | .endsWith => .ok (pyEndsWith hay needle)
  | .contains => .ok (pyContains hay needle)
  | .gt => .ok (orderLadder (· == .gt) (fun a b => strLt b a) th tn hay needle)
  | .lt => .ok (orderLadder (· == .lt) (fun a b => strLt a b) th tn hay needle)
  | .ge => .ok (orderLadder (· != .lt) (fun a b => strLe b a) th tn hay needle)
  | .le => .ok (orderLadder (· != .gt) (fun a b => strLe a b) th tn hay needle)
  | .regex =>
    match rx needle hay with
    | some b => .ok b
    | none => .error (.ypath .generic)   -- re.error is re-raised as YAMLPathException (fix 149bd27)

/-- `Searches.search_matches(method, term, haystack)` for a scalar haystack and a text term. -/
def searchMatches (rx : Str → Str → Option Bool) (m : Method) (haystack : Scalar) (term : Str) :
    Except Err Bool :=
  searchTyped rx m (typedOfScalar haystack) (typedValue term) (pyStr haystack) term

/-- The same with a scalar in the needle position, as `KeywordSearches.max/min` call it
(`needle` is the best value so far; `str(needle)` is used by the textual branches). -/
def searchMatchesScalar (rx : Str → Str → Option Bool) (m : Method) (haystack needle : Scalar) :
    Except Err Bool :=
  searchTyped rx m (typedOfScalar haystack) (typedOfScalar needle) (pyStr haystack) (pyStr needle)

/-! ## The inversion sites of `Processor._get_nodes_by_search` over scalar candidates -/

/-- `if (matches and not invert) or (invert and not matches): yield` -/
def yieldIf (inv hit : Bool) : Bool := (hit && !inv) || (inv && !hit)

/-- The search loop over a sequence of scalar candidates (list elements, hash keys, set
members, the attribute value, the scalar itself): the positions yielded before the loop ended,
and the error that ended it early, if any. -/
def searchScan (rx : Str → Str → Option Bool) (inv : Bool) (m : Method) (term : Str) :
    List Scalar → Nat → List Nat × Option Err
  | [], _ => ([], none)
  | c :: cs, i =>
    match searchMatches rx m c term with
    | .error e => ([], some e)
    | .ok b =>
      let (r, e) := searchScan rx inv m term cs (i + 1)
      (if yieldIf inv b then i :: r else r, e)

/-- The list site with `attr = '.'`: `(is_aoh and term in ele) or search_matches(…)`; a non-empty
list of nulls counts as an Array-of-Hashes (`accept_nulls=True`) and `term in None` raises. -/
def searchListSite (rx : Str → Str → Option Bool) (inv : Bool) (m : Method) (term : Str)
    (cs : List Scalar) : List Nat × Option Err :=
  if !cs.isEmpty && cs.all (· = .null) then ([], some (.crash .typeError))
  else searchScan rx inv m term cs 0

/-- The list site with a NAMED attribute (`[attr<op>term]` over a list of records).  Per element the
code computes `matches` afresh: `search_matches(method, term, ele[attr])` when the record has the
attribute, the comparison with the first node of the descendant search when `attr` is a path that
leads to one, and `False` when the element has no value there (no such key, a null or scalar
element, an empty record); then the same yield test.  A candidate is therefore `some value` or
`none` (the record has no value at the attribute): the answer for an element never depends on the
element before it. -/
def searchAttrScan (rx : Str → Str → Option Bool) (inv : Bool) (m : Method) (term : Str) :
    List (Option Scalar) → Nat → List Nat × Option Err
  | [], _ => ([], none)
  | none :: cs, i =>
    let (r, e) := searchAttrScan rx inv m term cs (i + 1)
    (if yieldIf inv false then i :: r else r, e)
  | some c :: cs, i =>
    match searchMatches rx m c term with
    | .error e => ([], some e)
    | .ok b =>
      let (r, e) := searchAttrScan rx inv m term cs (i + 1)
      (if yieldIf inv b then i :: r else r, e)

/-! ## The specification of C12, written from the property statement

"Equality is numeric when both sides are numbers of the same kind and textual otherwise,
booleans match their case-insensitive spellings, ordering is numeric for numeric values (and
false against a non-numeric term) and lexicographic for text, prefix/suffix/substring tests act
on the value's text, a regular expression is searched in the value's text."  Both sides are read
by the documented literal conversion (`typedOfScalar`, `typedValue`) to decide what kind of
thing they are; the value's text is its own `str()`.  In orderings Python's Booleans count as the
numbers 1 and 0 (the pinned test-suite demands it); in equality they only match their spellings. -/
namespace Spec

/-- Three-way lexicographic comparison of texts by code point (core `List` order on `Char`). -/
def textCmp (a b : Str) : Ordering := if a < b then .lt else if a = b then .eq else .gt

/-- Which outcomes of a three-way comparison satisfy an ordering operator. -/
def accepts : Method → Ordering → Bool
  | .gt, o => o = .gt
  | .lt, o => o = .lt
  | .ge, o => o = .gt || o = .eq
  | .le, o => o = .lt || o = .eq
  | _, _ => false

def isOrdering : Method → Bool
  | .gt | .lt | .ge | .le => true
  | _ => false

/-- `text` starts with `p`. -/
def hasPrefix (text p : Str) : Bool := text.take p.length == p
/-- `text` ends with `p`. -/
def hasSuffix (text p : Str) : Bool := p.length ≤ text.length && text.drop (text.length - p.length) == p
/-- `p` occurs in `text` at some offset. -/
def hasSubstring (text p : Str) : Bool :=
  (List.range (text.length + 1)).any (fun i => (text.drop i).take p.length == p)

/-- The answer the statement demands; `none` when the term is not well-formed for the operator
(an invalid regular expression) or a side lies outside the modelled literal classes. -/
def «matches» (rx : Str → Str → Option Bool) (m : Method) (value : Scalar) (term : Str) : Option Bool :=
  let v := typedOfScalar value
  let t := typedValue term
  let text := pyStr value
  if v = .unmodelled || t = .unmodelled then none else
  if isOrdering m then
    match v.ordNum?, t.ordNum? with
    | some (m1, e1), some (m2, e2) => some (accepts m (decCmp m1 e1 m2 e2))
    | some _, none => some false
    | none, _ => some (accepts m (textCmp text term))
  else match m with
  | .equals =>
    match v, t with
    | .int a, .int b => some (a = b)
    | .float m1 e1, .float m2 e2 => some (decCmp m1 e1 m2 e2 = .eq)
    | .bool a, .bool b => some (a = b)
    | _, _ => some (text = term)
  | .startsWith => some (hasPrefix text term)
  | .endsWith => some (hasSuffix text term)
  | .contains => some (hasSubstring text term)
  | .regex => rx term text
  | _ => none

end Spec

end Ypv
