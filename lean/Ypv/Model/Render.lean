import Ypv.Model.Parser
/-!
# Model of the text side of `yamlpath.YAMLPath`

`_stringify_yamlpath_segments`, `SearchTerms.__str__`, `SearchKeywordTerms.__str__`,
`CollectorTerms.__str__`, `ensure_escaped`, `escape_path_section`, and the `YAMLPath` object
itself (`original` setter, lazy `separator` / `escaped` / `unescaped` / `__str__` caches, the
`separator` setter, `__eq__`, `append`, `__add__`, `pop`, `strip_path_prefix`).

`SearchTerms.__str__` is modelled *as it is after the proposed repair* `fixes/C08-1.patch`
(a regular-expression term is written between the first delimiter of `regexDelims` that does not
occur in it; the pinned code always wrote `/` and turned an inner `/` into `\/`, which the parser
reads as the end of the expression).
-/
namespace Ypv

/-- `ensure_escaped(value, sym)` for one symbol, as it is after the proposed repair
`fixes/C08-2.patch`: a left-to-right scan in which a backslash and the character behind it are
copied as they are (for the backslash symbol itself: only a pair of backslashes), and every other
occurrence of the symbol gets a backslash.  (The pinned code split the text on `\sym`, which
mistakes the second half of an escaped backslash for the symbol's escape mark.) -/
def esc1 (sym : Char) : Str → Str
  | [] => []
  | [a] => if a = sym then ['\\', a] else [a]
  | a :: b :: rest =>
    if a = '\\' ∧ (sym ≠ '\\' ∨ b = '\\') then a :: b :: esc1 sym rest
    else if a = sym then '\\' :: a :: esc1 sym (b :: rest)
    else a :: esc1 sym (b :: rest)

/-- The blank-escaping of `SearchTerms.__str__` (`"\\ ".join(part.replace(" ", "\\ ") for part in
term.split("\\ "))`): split on the two-character text `\sym` (left-most, non-overlapping), escape
every remaining `sym`, join again. -/
def splitEsc1 (sym : Char) : Str → Str
  | [] => []
  | [a] => if a = sym then ['\\', a] else [a]
  | a :: b :: rest =>
    if a = '\\' ∧ b = sym then '\\' :: sym :: splitEsc1 sym rest
    else if a = sym then '\\' :: a :: splitEsc1 sym (b :: rest)
    else a :: splitEsc1 sym (b :: rest)

/-- `YAMLPath.ensure_escaped(value, *symbols)` (single-character symbols). -/
def ensureEscaped (syms : List Char) (v : Str) : Str := syms.foldl (fun acc s => esc1 s acc) v

/-- the symbols the stringifier escapes in KEY text -/
def keySyms (sep : Char) : List Char := [sep, '(', ')', '[', ']', '^', '$', '%', ' ', '\'', '"']

/-- the symbols of `escape_path_section` -/
def sectionSyms (sep : Char) : List Char := '\\' :: keySyms sep

/-- `YAMLPath.escape_path_section(section, pathsep)` -/
def escapePathSection (sep : Char) (v : Str) : Str :=
  let e := ensureEscaped (sectionSyms sep) v
  -- a leading `/` would switch the inferred separator (fix e9c869e)
  if e.head? = some '/' ∧ sep ≠ '/' then '\\' :: e else e

/-- candidate regular-expression delimiters, in order of preference (after `fixes/C08-1.patch`) -/
def regexDelims : List Char := ['/', '|', '#', '@', ',', ';', ':', '_', '-']

/-- the delimiter `SearchTerms.__str__` chooses for a regular expression -/
def regexDelim (term : Str) : Option Char := regexDelims.find? (fun d => !term.contains d)

/-- `str.replace("/", "\\/")` -/
def replaceSlash : Str → Str
  | [] => []
  | c :: r => if c = '/' then '\\' :: '/' :: replaceSlash r else c :: replaceSlash r

/-- `SearchTerms.__str__` -/
def searchStr (inv : Bool) (m : Method) (attr term : Str) : Str :=
  let safe : Str :=
    if m = .regex then
      match regexDelim term with
      | some d => d :: (term ++ [d])
      | none => '/' :: (replaceSlash term ++ ['/'])
    else splitEsc1 ' ' term
  '[' :: (attr ++ (if inv then ['!'] else []) ++ m.text ++ safe ++ [']'])

/-- `SearchKeywordTerms.__str__` -/
def keywordStr (inv : Bool) (k : Keyword) (params : Str) : Str :=
  '[' :: ((if inv then ['!'] else []) ++ k.text ++ ['('] ++ params ++ [')', ']'])

/-- `CollectorTerms.__str__` -/
def collectorStr (expr : Str) (op : CollOp) : Str := op.text ++ ['('] ++ expr ++ [')']

/-- Python `str()` of segment attributes. -/
def attrsStr : Attrs → Str
  | .str s => s
  | .int i => pyStrInt i
  | .search inv m attr term => searchStr inv m attr term
  | .keyword inv k p => keywordStr inv k p
  | .collector e op => collectorStr e op
  | .none => "None".toList

/-- One iteration of the loop of `_stringify_yamlpath_segments`. -/
def renderSeg (sep : Char) (addSep : Bool) : Seg → Str
  | (.key, a) => (if addSep then [sep] else []) ++ ensureEscaped (keySyms sep) (attrsStr a)
  | (.index, a) => '[' :: (attrsStr a ++ [']'])
  | (.matchAll, _) => (if addSep then [sep] else []) ++ ['*']
  | (.anchor, a) =>
    let name := ensureEscaped (keySyms sep) (attrsStr a)
    if addSep then '[' :: '&' :: (name ++ [']']) else '&' :: name
  | (.keywordSearch, a) => attrsStr a
  | (.search, .search inv m attr term) => searchStr inv m attr term
  | (.search, _) => []
  | (.collector, a) => attrsStr a
  | (.traverse, _) => (if addSep then [sep] else []) ++ ['*', '*']

def renderFrom (sep : Char) : Bool → List Seg → Str
  | _, [] => []
  | addSep, s :: r => renderSeg sep addSep s ++ renderFrom sep true r

/-- `_stringify_yamlpath_segments(segments, separator)` for DOT (also AUTO) and FSLASH. -/
def render (fslash : Bool) (segs : List Seg) : Str :=
  if fslash then '/' :: renderFrom '/' false segs else renderFrom '.' false segs

/-! ## The `YAMLPath` object -/

inductive SepOpt
  | auto | dot | fslash
  deriving DecidableEq, Repr, Inhabited

def SepOpt.char : SepOpt → Char
  | .fslash => '/'
  | _ => '.'

def SepOpt.isFslash (s : SepOpt) : Bool := s = .fslash

/-- `PathSeparators.infer_separator` -/
def inferSep : Str → SepOpt
  | [] => .auto
  | c :: _ => if c = '/' then .fslash else .dot

/-- The private fields of a `YAMLPath`.  An empty cache and "not computed yet" are the same
thing in the Python (`if not self._escaped:`), and so they are here. -/
structure PathObj where
  original : Str := []
  sep : SepOpt := .auto
  unesc : List Seg := []
  esc : List Seg := []
  strd : Str := []
  deriving DecidableEq, Repr, Inhabited

/-- the `original` setter: also forgets the separator and every cache -/
def PathObj.setOriginal (_p : PathObj) (v : Str) : PathObj :=
  { original := normOriginal v, sep := .auto, unesc := [], esc := [], strd := [] }

/-- `YAMLPath(text, pathsep)`: the `pathsep` argument is stored and then overwritten by the
`original` setter, so it has no effect. -/
def PathObj.new (t : Str) (_pathsep : SepOpt := .auto) : PathObj := ({} : PathObj).setOriginal t

/-- the `separator` getter (infers and stores) -/
def PathObj.getSep (p : PathObj) : SepOpt × PathObj :=
  if p.sep = .auto then (inferSep p.original, { p with sep := inferSep p.original }) else (p.sep, p)

/-- `_parse_path(strip)` on the object -/
def PathObj.parseObj (p : PathObj) (strip : Bool) : Except PErr (List Seg) × PathObj :=
  let (s, p) := p.getSep
  (parseWith s.isFslash strip p.original, p)

def PathObj.unescaped (p : PathObj) : Except PErr (List Seg × PathObj) :=
  if p.unesc ≠ [] then .ok (p.unesc, p)
  else match p.parseObj false with
    | (.ok u, p) => .ok (u, { p with unesc := u })
    | (.error e, _) => .error e

def PathObj.escaped (p : PathObj) : Except PErr (List Seg × PathObj) :=
  if p.esc ≠ [] then .ok (p.esc, p)
  else match p.parseObj true with
    | (.ok u, p) => .ok (u, { p with esc := u })
    | (.error e, _) => .error e

/-- `__str__` -/
def PathObj.str (p : PathObj) : Except PErr (Str × PathObj) :=
  if p.strd ≠ [] then .ok (p.strd, p)
  else match p.unescaped with
    | .error e => .error e
    | .ok (u, p) =>
      let (s, p) := p.getSep
      let r := render s.isFslash u
      .ok (r, { p with strd := r })

/-- the `separator` setter -/
def PathObj.setSep (p : PathObj) (v : SepOpt) : Except PErr PathObj :=
  if v = p.sep then .ok p
  else match p.unescaped with
    | .error e => .error e
    | .ok (u, p) => .ok { p with strd := render v.isFslash u, sep := v }

/-- `YAMLPath.__eq__` between two paths (or a path and a text) given their `original` texts, as it
is after the proposed repair `fixes/C08-3.patch`: fresh copies of both sides are parsed
(`escaped`, separator inferred) and the segments are compared field by field.  (The pinned code
compared the forward-slash renderings of the *unescaped* segments, which differ between notations
for a key containing a separator character.) -/
def eqModel (o1 o2 : Str) : Except PErr Bool :=
  match parse true (normOriginal o1), parse true (normOriginal o2) with
  | .ok a, .ok b => .ok (a == b)
  | .error e, _ => .error e
  | _, .error e => .error e

/-- `append(segment)` -/
def PathObj.append (p : PathObj) (seg : Str) : PathObj :=
  let (s, p) := p.getSep
  let c : Char := if s = .dot then '.' else '/'
  if p.original.length < 1 then p.setOriginal seg
  else p.setOriginal (p.original ++ c :: seg)

/-- `self + segment` -/
def PathObj.add (p : PathObj) (seg : Str) : PathObj := (PathObj.new p.original).append seg

def endsWith (s suffix : Str) : Bool := suffix.length ≤ s.length ∧ s.drop (s.length - suffix.length) = suffix

/-- `pop()`; `ypath 30` is "Cannot pop when there are no segments to pop from".  The last branch is the
repair 8d0a378 (before it the text was left as it was when none of the three `endswith` tests matched). -/
def PathObj.pop (p : PathObj) : Except PErr (Seg × PathObj) :=
  match p.unescaped with
  | .error e => .error e
  | .ok (u, p) =>
    match u.getLast? with
    | none => .error (.ypath 30)
    | some last =>
      let (s, p) := p.getSep
      let removable := render s.isFslash [last]
      let pref := if s = .fslash then removable else s.char :: removable
      let now := p.original
      if endsWith now pref then .ok (last, p.setOriginal (now.take (now.length - pref.length)))
      else if endsWith now removable then
        .ok (last, p.setOriginal (now.take (now.length - removable.length)))
      else if s = .fslash ∧ endsWith now (removable.drop 1) then
        .ok (last, p.setOriginal (now.take (now.length + 1 - removable.length)))
      else
        -- fix 8d0a378: the last segment is not spelled the way it is printed; the text is rebuilt
        -- from the remaining (unescaped) segments
        .ok (last, p.setOriginal (render s.isFslash u.dropLast))

def startsWith (s pre : Str) : Bool := s.take pre.length = pre

/-- `YAMLPath.strip_path_prefix(path, prefix)` (both arguments are mutated: their separator is
set to FSLASH); returns the resulting path object and the mutated arguments. -/
def stripPathPrefix (path pre : PathObj) : Except PErr (PathObj × PathObj × PathObj) :=
  match pre.setSep .fslash with
  | .error e => .error e
  | .ok pre => match pre.str with
    | .error e => .error e
    | .ok (ps, pre) =>
      if ps = ['/'] then .ok (path, path, pre)
      else match path.setSep .fslash with
        | .error e => .error e
        | .ok path => match path.str with
          | .error e => .error e
          | .ok (s, path) =>
            if startsWith s ps then
              -- fix 9c814d1: a remainder that starts with `[` gets its forward-slash back (without it the
              -- remainder would be re-read in dot notation)
              let rest := s.drop ps.length
              .ok (PathObj.new (if rest.head? = some '[' then '/' :: rest else rest), path, pre)
            else .ok (path, path, pre)

end Ypv
