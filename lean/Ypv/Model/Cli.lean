import Ypv.Model.Basic
import Ypv.Model.Compare
import Ypv.Model.Edit
import Ypv.Model.MultiDoc
/-!
# The command-line tools as pure functions (C16)

`main()` of `yamlpath/commands/yaml_get.py`, `yaml_set.py`, `yaml_merge.py`, `yaml_diff.py`,
`yaml_validate.py`, `yaml_paths.py`: the control flow after `argparse` — argument validation
(`validateargs`), which inputs are read (positional files, `-`, the implicit standard input of a
non-TTY session), what is handed to the library, what is printed, which file is written and the
exit status.

NOT modelled: `argparse` itself (its own usage errors exit with status 2 before `main` sees anything),
YAML/JSON (de)serialisation and the text layout of the output.  A loaded input is the data it loaded to
(`none` = the loader reported a failure), a printed line is the DATA it carries.  The library is a
parameter: the query evaluator (`ev`), the differ (`differ`), the path search (`find`) are oracles the
harness fills with the library's own in-process answers; `yaml-set` applies the Edit model
(`Ypv.delete`, `setValue`, `setOrCreate`) and `yaml-merge` the multi-document model
(`MultiDoc.mergeDocs`) with an arbitrary pairwise merge.

`yaml-merge` is modelled AS REPAIRED by `fixes/C16-1.patch` (the implicit standard input is the
left-hand stream when no file was named; the pinned code indexes an empty list), `yaml-get` AS REPAIRED
by `fixes/C16-2.patch` (an anchored Boolean prints as `True`/`False`, not `1`/`0`) and
`fixes/C16-3.patch` (exit status 1 when the query yielded nothing at all — the null document).
Core Lean only.
-/
namespace Ypv.Cli

/-- A positional `YAML_FILE`: the pseudo-file `-` or a file name. -/
inductive FileArg | dash | path
  deriving DecidableEq, Repr, Inhabited

/-- An option that names a file which must be readable (`--privatekey`, `--publickey`, `--config`). -/
inductive Opt3 | unset | good | bad
  deriving DecidableEq, Repr, Inhabited

def Opt3.isSet : Opt3 → Bool
  | .unset => false
  | _ => true

/-- `(publickey and not privatekey) or (privatekey and not publickey)` -/
def oneKeyOnly (priv pub : Opt3) : Bool := priv.isSet != pub.isSet

/-- `in_stream_mode` of yaml-get / yaml-set: `-` given, or nothing given in a non-TTY session without
`--nostdin`. -/
def inStream (file : Option FileArg) (nostdin tty : Bool) : Bool :=
  file == some .dash || (file.isNone && !nostdin && !tty)

/-- `pseudofile_count > 1` -/
def manyDash (files : List FileArg) : Bool := (files.filter (· == .dash)).length > 1

/-- "Check for a waiting STDIN document": no `-` among the files, no `--nostdin`, not a TTY. -/
def implicitStdin (files : List FileArg) (nostdin tty : Bool) : Bool :=
  !files.contains .dash && !nostdin && !tty

/-! ## yaml-get -/

/-- What a line of yaml-get's output carries. -/
inductive Item
  | json (n : Node)        -- a container: its JSON dump
  | text (s : Str)         -- a scalar: its text, line feeds written as `\n`
  deriving DecidableEq, Repr, Inhabited

/-- `str(node).replace("\n", r"\n")` -/
def escNl : Str → Str
  | [] => []
  | c :: cs => if c = '\n' then '\\' :: 'n' :: escNl cs else c :: escNl cs

/-- The line printed for one matched node. -/
def render : Node → Item
  | .scalar _ .null => .text ['\x00']
  | .scalar _ v => .text (escNl (pyStr v))
  | n => .json n

inductive QErr | ypath | eyaml
  deriving DecidableEq, Repr, Inhabited

/-- A Python generator: the nodes yielded and the exception that ended it, if any. -/
structure Query where
  nodes : List Node
  err : Option QErr
  deriving Repr, Inhabited

/-- The contract of `get_nodes(…, mustexist=True)`: it yields something or raises. -/
def Query.MustExist (q : Query) : Prop := q.err = none → q.nodes ≠ []

structure GetArgs where
  file : Option FileArg
  nostdin : Bool
  priv : Opt3
  pub : Opt3
  deriving DecidableEq, Repr, Inhabited

inductive GetErr | noInput | privUnreadable | pubUnreadable | oneKey
  deriving DecidableEq, Repr, Inhabited

def when {α : Type} (c : Bool) (e : α) : List α := if c then [e] else []

/-- `validateargs` of yaml-get: the complaints, in the order they are logged. -/
def getErrors (a : GetArgs) (tty : Bool) : List GetErr :=
  when (!(a.file.isSome || inStream a.file a.nostdin tty)) .noInput
  ++ when (a.priv == .bad) .privUnreadable
  ++ when (a.pub == .bad) .pubUnreadable
  ++ when (oneKeyOnly a.priv a.pub) .oneKey

structure Outcome where
  out : List Item
  exit : Nat
  deriving DecidableEq, Repr, Inhabited

/-- yaml-get `main()`: `ld` is what the loader made of the input (the named file or standard input);
`ev` is `EYAMLProcessor.get_eyaml_values(query, mustexist=True)`. -/
def get (ev : Node → Query) (a : GetArgs) (tty : Bool) (ld : Option Node) : Outcome :=
  if getErrors a tty ≠ [] then ⟨[], 1⟩
  else match ld with
    | none => ⟨[], 1⟩
    | some d =>
      match (ev d).err with
      | some .ypath => ⟨[], 1⟩
      | some .eyaml => ⟨[], 2⟩
      | none =>
        -- nothing gathered (a null document yields nothing and raises nothing): `fixes/C16-3.patch`
        if (ev d).nodes.isEmpty then ⟨[], 1⟩ else ⟨(ev d).nodes.map render, 0⟩

/-! ## yaml-set -/

/-- The mutually exclusive "input options" group (argparse admits at most one). -/
inductive Src
  | none
  | value (s : Str)
  | stdin (text : Str)
  | file (content : Str)
  | null
  | random (n : Nat)
  | delete
  | aliasof
  | mergekey
  deriving DecidableEq, Repr, Inhabited

/-- `--anchor`: unset, made of blanks / `&` / `*` only (empty after the clean-up), or a name. -/
inductive AnchorArg | unset | symbolsOnly | name
  deriving DecidableEq, Repr, Inhabited

structure SetArgs where
  file : Option FileArg
  nostdin : Bool
  src : Src
  anchor : AnchorArg
  tag : Bool
  backup : Bool
  change : Str
  saveto : Option Str
  mustexist : Bool
  check : Option Str
  fmt : Fmt
  eyamlcrypt : Bool
  randomFromShort : Bool        -- `len(args.random_from) < 2`
  priv : Opt3
  pub : Opt3
  deriving Repr, Inhabited

/-- Python truthiness of the chosen input option (`--random 0` is falsy). -/
def Src.truthy : Src → Bool
  | .none => false
  | .random n => n != 0
  | _ => true

inductive SetErr
  | noInput | noChangeGiven | stdinTwice | anchorAlone | backupOfStdin | savetoIsChange
  | privUnreadable | pubUnreadable | randomPool
  deriving DecidableEq, Repr, Inhabited

def savetoSet (a : SetArgs) : Bool :=
  match a.saveto with
  | some s => !s.isEmpty
  | none => false

def isStdinSrc : Src → Bool
  | .stdin _ => true
  | _ => false

/-- `validateargs` of yaml-set. -/
def setErrors (a : SetArgs) (tty : Bool) : List SetErr :=
  when (!(a.file.isSome || inStream a.file a.nostdin tty)) .noInput
  ++ when (!(a.src.truthy || a.anchor != .unset || a.tag)) .noChangeGiven
  ++ when (isStdinSrc a.src && inStream a.file a.nostdin tty) .stdinTwice
  ++ when (a.anchor == .name && !(a.src == .aliasof || a.src == .mergekey)) .anchorAlone
  ++ when (a.backup && inStream a.file a.nostdin tty) .backupOfStdin
  ++ when (savetoSet a && a.saveto == some a.change) .savetoIsChange
  ++ when (a.priv == .bad) .privUnreadable
  ++ when (a.pub == .bad) .pubUnreadable
  ++ when a.randomFromShort .randomPool

/-- What the gathering of `--change` (`get_nodes(…, mustexist=True)`) produced: the addresses of the
matched nodes, or a `YAMLPathException`. -/
structure Gather where
  addrs : List Addr
  failed : Bool
  deriving Repr, Inhabited

inductive Dest | file | stdout
  deriving DecidableEq, Repr, Inhabited

structure SetOut where
  exit : Nat
  written : Option (Dest × Node)     -- the document written, and where
  backup : Option Node               -- the content of `FILE.bak`
  deriving Repr, Inhabited

def SetOut.fail (c : Nat) : SetOut := ⟨c, none, none⟩

/-- Python `str.rstrip()` -/
def rstrip (s : Str) : Str := (s.reverse.dropWhile isPyWs).reverse

/-- The replacement value (`new_value`, `has_new_value`); `--random` is not modelled. -/
def newValue : Src → Option Scalar
  | .value s => some (.str s)
  | .stdin t => some (.str t)
  | .file c => some (.str (rstrip c))
  | .null => some .null
  | _ => Option.none

def setDest (a : SetArgs) : Dest := if a.file == some .path then .file else .stdout

/-- `must_exist = args.mustexist or args.saveto`, `--delete` forcing `--mustexist`. -/
def mustExist (a : SetArgs) : Bool := a.mustexist || a.src == .delete || savetoSet a

/-- `args.check == node` for a gathered node: only a text node equals a text. -/
def checkOk (chk : Str) (d : Node) (a : Addr) : Bool :=
  match d.get? a with
  | some (.scalar _ (.str s)) => s == chk
  | some (.scalar _ (.opaque _)) => false
  | _ => false

def checkSet (a : SetArgs) : Option Str :=
  match a.check with
  | some c => if c.isEmpty then none else some c
  | none => none

/-- The edit that yaml-set hands to the library, once gathering, `--check` and `--saveto` are passed:
`none` = outside the model (aliases, merge keys, tags, EYAML, random values, a missing non-straight
path). -/
def setOp (a : SetArgs) (g : Gather) (segs : Option (List PSeg)) : Option Op :=
  match a.src with
  | .delete => some (.delete g.addrs)
  | .aliasof | .mergekey => none
  | src =>
    if a.eyamlcrypt || a.tag then none
    else match newValue src with
      | none => none
      | some v =>
        if !g.failed && !g.addrs.isEmpty then some (.set g.addrs v a.fmt)
        else match segs with
          | some ss => some (.create ss v a.fmt)
          | none => none

/-- yaml-set `main()` after validation, on a loaded non-null document `d`.  `none` = outside the
model. -/
def setRun (a : SetArgs) (d : Node) (g : Gather) (segs : Option (List PSeg)) : Option SetOut :=
  if g.failed && mustExist a then some (.fail 1)
  else
    let addrs := if g.failed then [] else g.addrs
    match (match checkSet a with
           | some c => addrs.all (checkOk c d)
           | none => true) with
    | false => some (.fail 20)
    | true =>
      if savetoSet a then
        (if addrs.length > 1 then some (.fail 1) else none)
      else if a.src == .none && !a.tag && !a.eyamlcrypt then
        -- nothing to apply (`--anchor` of blanks/`&`/`*` only passes validation): written back as it is
        some ⟨0, some (setDest a, d), if a.backup then some d else none⟩
      else match setOp a g segs with
        | none => none
        | some op =>
          match op.apply d with
          | .error .outOfModel => none
          | .error _ => some (.fail 1)
          | .ok d' => some ⟨0, some (setDest a, d'), if a.backup then some d else none⟩

/-- yaml-set: `ld` is what the loader made of the input (`none` = failure, `some none` = an empty /
null document: `build_next_node` then invents a root, which is outside the model). -/
def set (ev : Node → Gather) (a : SetArgs) (tty : Bool) (ld : Option (Option Node))
    (segs : Option (List PSeg)) : Option SetOut :=
  if setErrors a tty ≠ [] then some (.fail 1)
  else match ld with
    | none => some (.fail 1)
    | some none => none
    | some (some d) => setRun a d (ev d) segs

/-! ## yaml-merge -/

inductive OutArg
  | stdout
  | output (fileExists : Bool)
  | overwrite (fileExists : Bool)
  deriving DecidableEq, Repr, Inhabited

structure MergeArgs where
  files : List FileArg
  nostdin : Bool
  config : Opt3
  out : OutArg
  backup : Bool
  mode : MultiDoc.Mode
  deriving Repr, Inhabited

inductive MergeErr | noInput | manyDash | configUnreadable | outputExists | backupNeedsOverwrite
  deriving DecidableEq, Repr, Inhabited

def OutArg.isOverwrite : OutArg → Bool
  | .overwrite _ => true
  | _ => false

/-- `validateargs` of yaml-merge. -/
def mergeErrors (a : MergeArgs) (tty : Bool) : List MergeErr :=
  when (a.files.isEmpty && (tty || a.nostdin)) .noInput
  ++ when (manyDash a.files) .manyDash
  ++ when (a.config == .bad) .configUnreadable
  ++ when (a.out == .output true) .outputExists
  ++ when (a.backup && !a.out.isOverwrite) .backupNeedsOverwrite

section
variable {ε : Type} (m : Node → Node → Except ε Node) (cls : ε → MultiDoc.Cls)

/-- The file loop of `main()`: the first stream that delivers documents is the left-hand side
(state 4 when it cannot be read), every further one goes through `merge_docs`; the count is
`merge_count`.  `none` = an `IndexError` escapes. -/
def mergeFiles (mode : MultiDoc.Mode) :
    List (Option (List Node)) → List Node → Nat → Option (Except ε (MultiDoc.Out × Nat))
  | [], docs, n => some (.ok (⟨docs, 0⟩, n))
  | f :: rest, docs, n =>
    if docs.isEmpty then
      match f with
      | none => some (.ok (⟨[], 4⟩, n))
      | some ds => mergeFiles mode rest ds n
    else
      match MultiDoc.mergeDocs m cls mode docs f with
      | none => none
      | some (.error e) => some (.error e)
      | some (.ok o) => if o.state = 0 then mergeFiles mode rest o.docs (n + 1) else some (.ok (o, n))

/-- After the loop: a lone stream is condensed under CONDENSE_ALL; the writer needs a document. -/
def mergeFinish (mode : MultiDoc.Mode) (o : MultiDoc.Out) (n : Nat) : Option (Except ε MultiDoc.Out) :=
  if o.state ≠ 0 then some (.ok o)
  else if n = 0 && mode == .condenseAll then MultiDoc.condenseAll m cls o.docs []
  else if o.docs.isEmpty then none
  else some (.ok o)

def mergeStreams (mode : MultiDoc.Mode) (inputs : List (Option (List Node))) :
    Option (Except ε MultiDoc.Out) :=
  match mergeFiles m cls mode inputs [] 0 with
  | none => none
  | some (.error e) => some (.error e)
  | some (.ok (o, n)) => mergeFinish m cls mode o n

structure MergeOut where
  exit : Nat
  docs : Option (List Node)          -- the documents written (only with exit status 0)
  toFile : Bool                      -- into OUTPUT / OVERWRITE instead of standard output
  backup : Bool                      -- `OVERWRITE.bak` holds the former content
  deriving DecidableEq, Repr, Inhabited

/-- The streams `main()` reads: the positional files, then the implicit standard input. -/
def mergeInputs (a : MergeArgs) (tty : Bool) (loads : List (Option (List Node)))
    (stdin : Option (List Node)) : List (Option (List Node)) :=
  if implicitStdin a.files a.nostdin tty then loads ++ [stdin] else loads

/-- yaml-merge `main()`.  `loads` are the loader's answers for the positional files in order
(`none` = not a file / not loadable), `stdin` the one for standard input.  Outer `none` = a crash
(`IndexError`), `.error e` = an exception of the pairwise merge that nothing catches. -/
def merge (a : MergeArgs) (tty : Bool) (loads : List (Option (List Node))) (stdin : Option (List Node)) :
    Option (Except ε MergeOut) :=
  if mergeErrors a tty ≠ [] then some (.ok ⟨1, none, false, false⟩)
  else match mergeStreams m cls a.mode (mergeInputs a tty loads stdin) with
    | none => none
    | some (.error e) => some (.error e)
    | some (.ok o) =>
      if o.state = 0 then some (.ok ⟨0, some o.docs, a.out != .stdout, a.backup⟩)
      else some (.ok ⟨o.state, none, false, false⟩)
end

/-! ## yaml-diff -/

structure DiffArgs where
  lhs : FileArg
  rhs : FileArg
  quiet : Bool
  same : Bool
  onlysame : Bool
  config : Opt3
  priv : Opt3
  pub : Opt3
  lidx : Option Int
  ridx : Option Int
  deriving Repr, Inhabited

inductive DiffErr | manyDash | quietWithSame | configUnreadable | privUnreadable | pubUnreadable
  deriving DecidableEq, Repr, Inhabited

/-- `validateargs` of yaml-diff. -/
def diffErrors (a : DiffArgs) : List DiffErr :=
  when (manyDash [a.lhs, a.rhs]) .manyDash
  ++ when (a.quiet && (a.same || a.onlysame)) .quietWithSame
  ++ when (a.config == .bad) .configUnreadable
  ++ when (a.priv == .bad) .privUnreadable
  ++ when (a.pub == .bad) .pubUnreadable

/-- The document a side contributes: exit 1 when an index is needed and missing, or too high; a
negative index counts from the end (Python), `crash` when it reaches before the first document. -/
inductive Pick
  | doc (d : Node)
  | exit1
  | crash
  deriving Repr, Inhabited

def pickDoc (docs : List Node) (idx : Option Int) : Pick :=
  if docs.length > 1 && idx.isNone then .exit1
  else
    let i : Int := idx.getD 0
    if i > (docs.length : Int) - 1 then .exit1
    else if i ≥ 0 then (match docs[i.toNat]? with | some d => .doc d | none => .crash)
    else if -i ≤ docs.length then
      (match docs[docs.length - (-i).toNat]? with | some d => .doc d | none => .crash)
    else .crash

section
variable {E : Type} (isSame : E → Bool)

/-- `print_report`: is this entry printed? -/
def shown (a : DiffArgs) (e : E) : Bool :=
  !a.quiet && ((!isSame e && !a.onlysame) || (a.onlysame && isSame e) || a.same)

structure DiffOut (E : Type) where
  printed : List E
  exit : Nat

/-- yaml-diff `main()`: `differ l r` is `Differ(l).compare_to(r); get_report()`
(`none` = an EYAML failure).  Outer `none` = a crash. -/
def diff (differ : Node → Node → Option (List E)) (a : DiffArgs) (l r : Option (List Node)) :
    Option (DiffOut E) :=
  if diffErrors a ≠ [] then some ⟨[], 1⟩
  else match l, r with
    | some ls, some rs =>
      (match pickDoc ls a.lidx with
       | .exit1 => some ⟨[], 1⟩
       | .crash => none
       | .doc ld =>
         match pickDoc rs a.ridx with
         | .exit1 => some ⟨[], 1⟩
         | .crash => none
         | .doc rd =>
           match differ ld rd with
           | none => some ⟨[], 1⟩
           | some rep => some ⟨rep.filter (shown isSame a), if rep.all isSame then 0 else 1⟩)
    | _, _ => some ⟨[], 1⟩
end

/-! ## yaml-validate -/

structure ValArgs where
  files : List FileArg
  nostdin : Bool
  quiet : Bool
  verbose : Bool
  deriving Repr, Inhabited

inductive ValErr | noInput | manyDash
  deriving DecidableEq, Repr, Inhabited

def valErrors (a : ValArgs) (tty : Bool) : List ValErr :=
  when (a.files.isEmpty && (tty || a.nostdin)) .noInput
  ++ when (manyDash a.files) .manyDash

/-- A report line: (position of the file among the processed inputs, document index, valid?). -/
abbrev ValLine := Nat × Nat × Bool

/-- `process_file`: the lines for the load flags of one stream. -/
def valFileLines (a : ValArgs) (fi : Nat) : Nat → List Bool → List ValLine
  | _, [] => []
  | i, ok :: rest =>
    (if ok then (if a.verbose then [(fi, i, true)] else []) else (if a.quiet then [] else [(fi, i, false)]))
    ++ valFileLines a fi (i + 1) rest

def valFileState (flags : List Bool) : Nat := if flags.all id then 0 else 2

/-- The loop over the positional files. -/
def valLoop (a : ValArgs) : Nat → List (List Bool) → List ValLine × Nat
  | _, [] => ([], 0)
  | fi, f :: rest =>
    let (ls, st) := valLoop a (fi + 1) rest
    (valFileLines a fi 0 f ++ ls, if st ≠ 0 then st else valFileState f)

structure ValOut where
  lines : List ValLine
  exit : Nat
  deriving DecidableEq, Repr, Inhabited

/-- yaml-validate `main()`: `loads` = per positional file the `doc_loaded` flags the loader yields,
`stdin` = those of standard input. -/
def validate (a : ValArgs) (tty : Bool) (loads : List (List Bool)) (stdin : List Bool) : ValOut :=
  if valErrors a tty ≠ [] then ⟨[], 1⟩
  else
    let (ls, st) := valLoop a 0 loads
    if st = 0 && implicitStdin a.files a.nostdin tty then
      ⟨ls ++ valFileLines a loads.length 0 stdin, valFileState stdin⟩
    else ⟨ls, st⟩

/-! ## yaml-paths -/

structure PathsArgs where
  search : List Str
  exc : List Str
  files : List FileArg
  nostdin : Bool
  priv : Opt3
  pub : Opt3
  deriving Repr, Inhabited

inductive PathsErr | noInput | manyDash | privUnreadable | pubUnreadable | oneKey
  deriving DecidableEq, Repr, Inhabited

def pathsErrors (a : PathsArgs) (tty : Bool) : List PathsErr :=
  when (a.files.isEmpty && (tty || a.nostdin)) .noInput
  ++ when (manyDash a.files) .manyDash
  ++ when (a.priv == .bad) .privUnreadable
  ++ when (a.pub == .bad) .pubUnreadable
  ++ when (oneKeyOnly a.priv a.pub) .oneKey

/-- A result line: the expression that found it and the path (as text). -/
abbrev Hit := Str × Str

section
variable (valid : Str → Bool) (find : Node → Str → List Str)

/-- "Record only unique results" -/
def addHits (expr : Str) : List Str → List Hit → List Hit
  | [], acc => acc
  | p :: ps, acc => addHits expr ps (if acc.any (·.2 == p) then acc else acc ++ [(expr, p)])

/-- The search loop of one document: the hits, and whether an expression was rejected. -/
def searchLoop (d : Node) : List Str → List Hit → Bool → List Hit × Bool
  | [], acc, bad => (acc, bad)
  | e :: es, acc, bad =>
    if valid e then searchLoop d es (addHits e (find d e) acc) bad
    else searchLoop d es acc true

/-- `yaml_paths.remove(entry); break` for each excepted result. -/
def dropHits : List Str → List Hit → List Hit
  | [], acc => acc
  | p :: ps, acc => dropHits ps (acc.eraseP (·.2 == p))

def exceptLoop (d : Node) : List Str → List Hit → Bool → List Hit × Bool
  | [], acc, bad => (acc, bad)
  | e :: es, acc, bad =>
    if valid e then exceptLoop d es (dropHits (find d e) acc) bad
    else exceptLoop d es acc true

/-- One loaded document: printed hits and the `exit_state` it assigns (`none` = leaves it alone). -/
def pathsDoc (a : PathsArgs) (d : Node) : List Hit × Option Nat :=
  let (hits, bad) := searchLoop valid find d a.search [] false
  if hits.isEmpty then ([], if bad then some 1 else none)
  else
    let (kept, bad') := exceptLoop valid find d a.exc hits false
    (kept, if bad || bad' then some 1 else none)

/-- A printed line: (file position, document index, hit). -/
abbrev PLine := Nat × Nat × Hit

/-- `process_yaml_file`: the lines and the state (the last assignment wins). -/
def pathsFile (a : PathsArgs) (fi : Nat) : Nat → List (Option Node) → Nat → List PLine × Nat
  | _, [], st => ([], st)
  | i, none :: rest, _ => pathsFile a fi (i + 1) rest 3
  | i, some d :: rest, st =>
    let (hits, s) := pathsDoc valid find a d
    let (ls, st') := pathsFile a fi (i + 1) rest (s.getD st)
    (hits.map (fun h => (fi, i, h)) ++ ls, st')

def pathsLoop (a : PathsArgs) : Nat → List (List (Option Node)) → List PLine × Nat
  | _, [] => ([], 0)
  | fi, f :: rest =>
    let (l1, s1) := pathsFile valid find a fi 0 f 0
    let (ls, st) := pathsLoop a (fi + 1) rest
    (l1 ++ ls, if st ≠ 0 then st else s1)

structure PathsOut where
  lines : List PLine
  exit : Nat
  deriving DecidableEq, Repr, Inhabited

/-- yaml-paths `main()`: `loads` = per positional file the loaded documents (`none` = the loader
failed there), `stdin` = those of standard input; `valid e` = the expression parses as a search term,
`find d e` = `search_for_paths` over document `d`, as path texts. -/
def paths (a : PathsArgs) (tty : Bool) (loads : List (List (Option Node))) (stdin : List (Option Node)) :
    PathsOut :=
  if pathsErrors a tty ≠ [] then ⟨[], 1⟩
  else
    let (ls, st) := pathsLoop valid find a 0 loads
    if st = 0 && implicitStdin a.files a.nostdin tty then
      let (l2, s2) := pathsFile valid find a loads.length 0 stdin 0
      ⟨ls ++ l2, s2⟩
    else ⟨ls, st⟩
end

end Ypv.Cli
