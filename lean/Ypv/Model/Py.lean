import Ypv.Model.Basic
/-!
# The fragment of Python the models rely on: `int(str)`, `str(int)`
-/
namespace Ypv

/-- ASCII characters for which Python's `str.isspace()` holds (what `int()` strips). -/
def isPyWs (c : Char) : Bool :=
  c = ' ' || c = '\t' || c = '\n' || c = '\r' || c = '\x0b' || c = '\x0c'
    || c = '\x1c' || c = '\x1d' || c = '\x1e' || c = '\x1f'

def isDigit (c : Char) : Bool := '0' ≤ c && c ≤ '9'

def digitVal (c : Char) : Nat := c.toNat - '0'.toNat

/-- `digit (_? digit)*` read left to right; `prevDigit` says whether the previous character
was a digit (an underscore is only legal between two digits). -/
def digitsUS : Str → (acc : Nat) → (prevDigit : Bool) → Option Nat
  | [], acc, prev => if prev then some acc else none
  | c :: cs, acc, prev =>
    if isDigit c then digitsUS cs (acc * 10 + digitVal c) true
    else if c = '_' && prev then
      match cs with
      | d :: _ => if isDigit d then digitsUS cs acc false else none
      | [] => none
    else none

def stripWs (s : Str) : Str := ((s.dropWhile isPyWs).reverse.dropWhile isPyWs).reverse

/-- Python `int(text)` for ASCII text: `none` is `ValueError`. -/
def pyInt? (s : Str) : Option Int :=
  match stripWs s with
  | '-' :: r => (digitsUS r 0 false).map (fun n => -(n : Int))
  | '+' :: r => (digitsUS r 0 false).map (fun n => (n : Int))
  | r => (digitsUS r 0 false).map (fun n => (n : Int))

def natDigits (n : Nat) : Str := (Nat.toDigits 10 n)

/-- Python `str(i)` for an int. -/
def pyStrInt (i : Int) : Str :=
  if i < 0 then '-' :: natDigits i.natAbs else natDigits i.natAbs

end Ypv
