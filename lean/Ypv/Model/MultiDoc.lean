import Ypv.Model.Basic
/-!
# Multi-document merges (`yamlpath/commands/yaml_merge.py`)

`merge_condense_all`, `merge_across`, `merge_matrix`, `merge_docs` and the file loop of `main()`,
parametric in the pairwise merge `m : Node → Node → Except ε Node` (instantiated with C05's
`Merge.mergeWith cfg` by the driver) and in the classification of its failures
(`MergeException`, `YAMLPathException`, anything else — which the three functions do not catch).
A stream is the list of its documents (`Merger.data` of each `Merger`); values are immutable, so a
failed pairwise merge leaves the left-hand document as it was.  Core Lean only.
-/
namespace Ypv.MultiDoc

/-- Which `except` clause a failure of the pairwise merge reaches. -/
inductive Cls
  | merge      -- `MergeException`
  | ypath      -- `YAMLPathException`
  | other      -- not caught: propagates out of `merge_docs`
  deriving DecidableEq, Repr, Inhabited

/-- `MultiDocModes` -/
inductive Mode | condenseAll | mergeAcross | matrixMerge
  deriving DecidableEq, Repr, Inhabited

/-- Result of a multi-document function: the left-hand stream afterwards and the `return_state`. -/
structure Out where
  docs : List Node
  state : Nat
  deriving DecidableEq, Repr, Inhabited

section
variable {ε : Type} (m : Node → Node → Except ε Node) (cls : ε → Cls)

/-- `return_state` for a caught failure: `base + 1` for `MergeException`, `base + 2` for
`YAMLPathException`; `none` when the exception is not caught. -/
def code (base : Nat) (e : ε) : Option Nat :=
  match cls e with
  | .merge => some (base + 1)
  | .ypath => some (base + 2)
  | .other => none

/-- `for doc in docs: try: prime.merge_with(doc.data) except …: return_state = …` — a failure is
recorded and the loop goes on with the next document. -/
def condenseLoop (base : Nat) : List Node → Node × Nat → Except ε (Node × Nat)
  | [], acc => .ok acc
  | d :: rest, (prime, st) =>
    match m prime d with
    | .ok p => condenseLoop base rest (p, st)
    | .error e =>
      match code cls base e with
      | some c => condenseLoop base rest (prime, c)
      | none => .error e

/-- `merge_condense_all(lhs_docs, rhs_docs)`; `none` is the `IndexError` of `lhs_docs[0]` on an
empty left-hand stream. -/
def condenseAll (lhs rhs : List Node) : Option (Except ε Out) :=
  match lhs with
  | [] => none
  | l0 :: ltail =>
    some (match condenseLoop m cls 10 ltail (l0, 0) with
      | .error e => .error e
      | .ok acc1 =>
        match condenseLoop m cls 12 rhs acc1 with
        | .error e => .error e
        | .ok (prime, st) => .ok ⟨[prime], st⟩)

/-- `merge_across`: position by position; the first failure ends the whole loop (surplus right-hand
documents are then not appended). -/
def across : List Node → List Node → Except ε Out
  | ls, [] => .ok ⟨ls, 0⟩                         -- `i > rhs_limit`: break
  | [], rs => .ok ⟨rs, 0⟩                         -- `i > lhs_limit`: append the rest one by one
  | l :: ls, r :: rs =>
    match m l r with
    | .ok d =>
      match across ls rs with
      | .ok o => .ok ⟨d :: o.docs, o.state⟩
      | .error e => .error e
    | .error e =>
      match code cls 30 e with
      | some c => .ok ⟨l :: ls, c⟩
      | none => .error e

/-- The inner loop of `merge_matrix` for one left-hand document: the first failure ends it. -/
def matrixRow : List Node → Node → Except ε (Node × Option Nat)
  | [], d => .ok (d, none)
  | r :: rs, d =>
    match m d r with
    | .ok d' => matrixRow rs d'
    | .error e =>
      match code cls 40 e with
      | some c => .ok (d, some c)
      | none => .error e

/-- `merge_matrix`: every right-hand document into every left-hand document; a failure ends only the
current row; the state is that of the last failure. -/
def matrix (rhs : List Node) : List Node → Nat → Except ε Out
  | [], st => .ok ⟨[], st⟩
  | l :: ls, st =>
    match matrixRow m cls rhs l with
    | .error e => .error e
    | .ok (d, c) =>
      match matrix rhs ls (c.getD st) with
      | .error e => .error e
      | .ok o => .ok ⟨d :: o.docs, o.state⟩

/-- `merge_docs`: `rhs = none` is a right-hand file that could not be loaded (state 3). -/
def mergeDocs (mode : Mode) (lhs : List Node) (rhs : Option (List Node)) : Option (Except ε Out) :=
  match rhs with
  | none => some (.ok ⟨lhs, 3⟩)
  | some rs =>
    match mode with
    | .condenseAll => condenseAll m cls lhs rs
    | .mergeAcross => some (across m cls lhs rs)
    | .matrixMerge => some (matrix m cls rs lhs 0)

/-- The file loop of `main()`: the first file gives the left-hand stream, every further file is merged
in with `merge_docs`; the first non-zero state ends the loop. -/
def fileLoop (mode : Mode) : List (List Node) → List Node → Option (Except ε Out)
  | [], docs => some (.ok ⟨docs, 0⟩)
  | f :: rest, docs =>
    match mergeDocs m cls mode docs (some f) with
    | none => none
    | some (.error e) => some (.error e)
    | some (.ok o) => if o.state = 0 then fileLoop mode rest o.docs else some (.ok o)

/-- `main()` after argument handling, for files that load: with a single file and CONDENSE_ALL the
file's own documents are condensed.  The output is written only when the state is 0. -/
def mainRun (mode : Mode) (files : List (List Node)) : Option (Except ε Out) :=
  match files with
  | [] => some (.ok ⟨[], 0⟩)
  | [f0] => if mode = .condenseAll then condenseAll m cls f0 [] else some (.ok ⟨f0, 0⟩)
  | f0 :: rest => fileLoop m cls mode rest f0

end
end Ypv.MultiDoc
