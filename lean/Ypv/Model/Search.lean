import Ypv.Model.Compare
import Ypv.Model.Render
/-!
# Model of `yaml-paths` (C07): `search_for_paths`, `yield_children`, `Searches.search_anchor`,
`get_search_term`, the de-duplication loop of `process_yaml_file`

Core Lean only.  Everything lives in `Ypv.Search`.

## Documents

`SNode` is `Node` (Model/Basic.lean) extended by what the search looks at and `Node` cannot say:
* a mapping key / set member may itself carry an anchor (`&k key: v`, `*k : v`) — `AKey`;
* a mapping that uses YAML merge keys (`<<: *b`) has, next to its own entries
  (`CommentedMap.non_merged_items()`), the entries it inherits (`items()` lists them after the own
  ones) and the list of anchor names under which `all_anchors` knows its merge references
  (what the loop over `data.merge` × `all_anchors.items()` of the merge-key block finds — by object
  identity, after `fixes/C07-7`; computed from the real objects by the harness).
`ofNode` embeds `Node`.  Aliases are repeated equal subtrees / keys carrying the same anchor name.

## Matching

The term test is a parameter `μ : Scalar → Bool` ("this value / key / name satisfies the
expression": `Ypv.searchMatches` followed by the inversion test `yieldIf`); `Ctx.ofTerm` builds it
from `searchMatches` and the regex oracle.  Cases in which `searchMatches` has no answer for some
text of the document (invalid regular expression, literal outside the C12 model) are reported as
out of model by the driver and not judged.

## Code state mirrored

The model mirrors `yaml_paths.py` **as it reads after `fixes/C07-1 … C07-7`** (see notes/C07.md):
sets inside sequences are searched; a value alias that is not asked for is skipped together with
its children also when reference names are not searched; the merge-key block runs only when
reference names are searched; the name of an aliased key is not matched when key aliases are not
asked for; a scalar document is searched; `yield_children` lists the members of a set.
-/
namespace Ypv.Search
open Ypv

/-- A mapping key or set member together with the anchor it may carry. -/
structure AKey where
  anchor : Option Str
  key : Key
  deriving DecidableEq, Repr, Inhabited

inductive SNode
  | scalar (a : Option Str) (v : Scalar)
  | seq (a : Option Str) (items : List SNode)
  | map (a : Option Str) (own : List (AKey × SNode)) (merged : List (AKey × SNode)) (refs : List Str)
  | set (a : Option Str) (members : List AKey)
  deriving Repr, Inhabited

def SNode.anchor : SNode → Option Str
  | .scalar a _ | .seq a _ | .map a _ _ _ | .set a _ => a

def SNode.isSeqOrMap : SNode → Bool
  | .seq .. | .map .. => true
  | _ => false

def SNode.isContainer : SNode → Bool
  | .scalar .. => false
  | _ => true

mutual
/-- the embedding of the common document type (no key anchors, no merge keys) -/
def ofNode : Node → SNode
  | .scalar a v => .scalar a v
  | .seq a items => .seq a (ofNodes items)
  | .map a es => .map a (ofEntries es) [] []
  | .set a ms => .set a (ms.map (fun k => ⟨none, k⟩))
def ofNodes : List Node → List SNode
  | [] => []
  | n :: r => ofNode n :: ofNodes r
def ofEntries : List (Key × Node) → List (AKey × SNode)
  | [] => []
  | (k, n) :: r => (⟨none, k⟩, ofNode n) :: ofEntries r
end

/-- One step of an address in an `SNode`: mapping key (own or inherited entry), sequence position,
set member, the `j`-th merge reference of a mapping. -/
inductive SRef
  | key (k : Key)
  | idx (i : Nat)
  | member (k : Key)
  | mref (j : Nat)
  deriving DecidableEq, Repr, Inhabited

abbrev SAddr := List SRef

/-- the haystack a key is for `search_matches` -/
def keyScalar : Key → Scalar
  | .str s => .str s
  | .int i => .int i

/-- `str(key)` -/
def keyText : Key → Str
  | .str s => s
  | .int i => pyStrInt i

/-! ## Options and context -/

/-- The keyword arguments of `search_for_paths` that `main()` derives from the command line
(`decrypt_eyaml` is out of scope) and the path separator. -/
structure Opts where
  searchValues : Bool := true
  searchKeys : Bool := false
  searchAnchors : Bool := false
  inclKeyAliases : Bool := true
  inclValueAliases : Bool := false
  expand : Bool := false
  fslash : Bool := false
  deriving DecidableEq, Repr, Inhabited

/-- what is fixed during one search: the options and the term test -/
structure Ctx where
  o : Opts
  μ : Scalar → Bool

def Ctx.sep (c : Ctx) : Char := if c.o.fslash then '/' else '.'

/-- `pool = data.items()` instead of `data.non_merged_items()` -/
def Ctx.pooled (c : Ctx) : Bool := c.o.inclKeyAliases || c.o.inclValueAliases

/-- `main()`: `--onlykeynames` / `--keynames` / neither -/
inductive KeyMode | values | keys | keysOnly
  deriving DecidableEq, Repr, Inhabited

/-- `IncludeAliases` -/
inductive AliasMode | anchorsOnly | keyAliases | valueAliases | allAliases
  deriving DecidableEq, Repr, Inhabited

/-- the option handling of `main()` -/
def optsOfCli (km : KeyMode) (am : AliasMode) (refnames expand fslash : Bool) : Opts :=
  { searchValues := km ≠ .keysOnly
    searchKeys := km ≠ .values
    searchAnchors := refnames
    inclKeyAliases := am = .keyAliases || am = .allAliases
    inclValueAliases := am = .valueAliases || am = .allAliases
    expand := expand
    fslash := fslash }

/-- `PathSeparators`, the value `--pathsep` (argparse `type=PathSeparators.from_str`: `auto`, `dot` / `.`,
`fslash` / `/`) hands to `search_for_paths` -/
inductive Sep | auto | dot | fslash
  deriving DecidableEq, Repr, Inhabited

/-- All the search (and `escape_path_section`) asks of its separator is `pathsep is PathSeparators.FSLASH` and
`str(pathsep)`; `PathSeparators.__str__` answers `/` for FSLASH and `.` for everything else, so AUTO renders dot
notation with every rule of dot notation (the leading-slash protection of `escape_path_section` included). -/
def Sep.isFslash : Sep → Bool
  | .fslash => true
  | _ => false

/-- the options of a search run with the separator `s` -/
def Opts.withSep (o : Opts) (s : Sep) : Opts := { o with fslash := s.isFslash }

/-- the option handling of `main()`, the separator as `--pathsep` delivers it -/
def optsOfCliSep (km : KeyMode) (am : AliasMode) (refnames expand : Bool) (s : Sep) : Opts :=
  optsOfCli km am refnames expand s.isFslash

/-! ## `Searches.search_anchor` -/

/-- `AnchorMatches` -/
inductive AM
  | aliasExcluded | aliasIncluded | «match» | noAnchor | noMatch | unsearchableAlias | unsearchableAnchor
  deriving DecidableEq, Repr, Inhabited

/-- `anchor_matched in [MATCH, ALIAS_INCLUDED]` -/
def AM.hit : AM → Bool
  | .match | .aliasIncluded => true
  | _ => false

/-- `anchor_matched in [UNSEARCHABLE_ALIAS, ALIAS_EXCLUDED]` -/
def AM.unwantedAlias : AM → Bool
  | .unsearchableAlias | .aliasExcluded => true
  | _ => false

/-- `Searches.search_anchor(node, terms, seen_anchors, search_anchors=…, include_aliases=…)`:
the classification and the (appended-to) list of seen anchors. -/
def searchAnchor (c : Ctx) (anchor : Option Str) (seen : List Str) (inclAliases : Bool) :
    AM × List Str :=
  match anchor with
  | none => (.noAnchor, seen)
  | some n =>
    let isAlias := seen.contains n
    let seen' := if isAlias then seen else seen ++ [n]
    if !c.o.searchAnchors then ((if isAlias then .unsearchableAlias else .unsearchableAnchor), seen')
    else if isAlias && !inclAliases then (.aliasExcluded, seen')
    else if c.μ (.str n) then ((if isAlias then .aliasIncluded else .match), seen')
    else (.noMatch, seen')

/-! ## Path text, built by concatenation as the Python does -/

/-- `YAMLPath.escape_path_section(x, pathsep)` -/
def esc (c : Ctx) (t : Str) : Str := escapePathSection c.sep t

/-- sequence / scalar branches: `if not build_path and pathsep is FSLASH: build_path = "/"` -/
def rootFix (c : Ctx) (bp : Str) : Str := if bp = [] ∧ c.o.fslash then ['/'] else bp

/-- sequence branch: `build_path += "["` after the root fix -/
def seqPrefix (c : Ctx) (bp : Str) : Str := rootFix c bp ++ ['[']

/-- mapping / set branches: `if build_path: build_path += sep  elif FSLASH: build_path = sep` -/
def mapPrefix (c : Ctx) (bp : Str) : Str :=
  if bp ≠ [] then bp ++ [c.sep] else if c.o.fslash then [c.sep] else bp

/-- the temporary path of a sequence element: by index, or by anchor when it has one -/
def itemPath (c : Ctx) (bp1 : Str) (i : Nat) (anchor : Option Str) : Str :=
  match anchor with
  | none => bp1 ++ natDigits i ++ [']']
  | some a => bp1 ++ ['&'] ++ esc c a ++ [']']

def keyPath (c : Ctx) (bp1 : Str) (k : Key) : Str := bp1 ++ esc c (keyText k)

def mrefPath (c : Ctx) (bp1 : Str) (name : Str) : Str := bp1 ++ "[&".toList ++ esc c name ++ [']']

/-- One yielded `YAMLPath(text)`, with the address of the node it was yielded for (the address is
not an output of the Python; the harness re-resolves the printed path and compares). -/
structure Hit where
  path : Str
  addr : SAddr
  deriving DecidableEq, Repr, Inhabited

abbrev Out := List Hit × List Str

/-! ## `yield_children` -/

/-- the set branch of `yield_children` (added by `fixes/C07-6`) -/
def ycMembers (c : Ctx) : List AKey → Str → SAddr → List Str → Out
  | [], _, _, seen => ([], seen)
  | k :: rest, bp1, ad, seen =>
    let (kam, seen1) := searchAnchor c k.anchor seen c.o.inclKeyAliases
    let h := if !c.o.inclKeyAliases && kam.unwantedAlias then []
             else [⟨keyPath c bp1 k.key, ad ++ [.member k.key]⟩]
    let (hr, seen2) := ycMembers c rest bp1 ad seen1
    (h ++ hr, seen2)

mutual
/-- `yield_children(logger, data, terms, pathsep, build_path, seen_anchors, …)` -/
def ycNode (c : Ctx) : SNode → Str → SAddr → List Str → Out
  | .seq _ items, bp, ad, seen => ycItems c items 0 (seqPrefix c bp) ad seen
  | .map _ own merged _, bp, ad, seen =>
    let (h1, s1) := ycEntries c own (mapPrefix c bp) ad seen
    if c.pooled then
      let (h2, s2) := ycEntries c merged (mapPrefix c bp) ad s1
      (h1 ++ h2, s2)
    else (h1, s1)
  | .set _ ms, bp, ad, seen => ycMembers c ms (mapPrefix c bp) ad seen
  | .scalar _ _, bp, ad, seen => ([⟨rootFix c bp, ad⟩], seen)
def ycItems (c : Ctx) : List SNode → Nat → Str → SAddr → List Str → Out
  | [], _, _, _, seen => ([], seen)
  | ele :: rest, i, bp1, ad, seen =>
    let (am, seen1) := searchAnchor c ele.anchor seen c.o.inclValueAliases
    let (h, seen2) :=
      if !c.o.inclValueAliases && am.unwantedAlias then ([], seen1)
      else if ele.isContainer then ycNode c ele (itemPath c bp1 i ele.anchor) (ad ++ [.idx i]) seen1
      else ([⟨itemPath c bp1 i ele.anchor, ad ++ [.idx i]⟩], seen1)
    let (hr, seen3) := ycItems c rest (i + 1) bp1 ad seen2
    (h ++ hr, seen3)
def ycEntries (c : Ctx) : List (AKey × SNode) → Str → SAddr → List Str → Out
  | [], _, _, seen => ([], seen)
  | (k, v) :: rest, bp1, ad, seen =>
    let (kam, seen1) := searchAnchor c k.anchor seen c.o.inclKeyAliases
    let (vam, seen2) := searchAnchor c v.anchor seen1 c.o.inclValueAliases
    let (h, seen3) :=
      if (!c.o.inclKeyAliases && kam.unwantedAlias) || (!c.o.inclValueAliases && vam.unwantedAlias)
      then ([], seen2)
      else if v.isContainer then ycNode c v (keyPath c bp1 k.key) (ad ++ [.key k.key]) seen2
      else ([⟨keyPath c bp1 k.key, ad ++ [.key k.key]⟩], seen2)
    let (hr, seen4) := ycEntries c rest bp1 ad seen3
    (h ++ hr, seen4)
end

/-- "yield the match": the path itself, or with `expand_children` the children below it -/
def emit (c : Ctx) (n : SNode) (tmp : Str) (ad : SAddr) (seen : List Str) : Out :=
  if c.o.expand then ycNode c n tmp ad seen else ([⟨tmp, ad⟩], seen)

/-! ## `search_for_paths` -/

/-- the `elif search_values:` tail of the sequence and mapping branches, for a scalar value -/
def valueHit (c : Ctx) (v : Scalar) (tmp : Str) (ad : SAddr) : List Hit :=
  if c.o.searchValues && c.μ v then [⟨tmp, ad⟩] else []

/-- the set branch -/
def sMembers (c : Ctx) : List AKey → Str → SAddr → List Str → Out
  | [], _, _, seen => ([], seen)
  | k :: rest, bp1, ad, seen =>
    let (kam, seen1) := searchAnchor c k.anchor seen c.o.inclKeyAliases
    let h : List Hit :=
      if kam.hit then [⟨keyPath c bp1 k.key, ad ++ [.member k.key]⟩]
      else if (c.o.inclKeyAliases || !kam.unwantedAlias) && c.μ (keyScalar k.key)
        then [⟨keyPath c bp1 k.key, ad ++ [.member k.key]⟩]
      else []
    let (hr, seen2) := sMembers c rest bp1 ad seen1
    (h ++ hr, seen2)

/-- the merge-key block at the end of the mapping branch -/
def ymk (c : Ctx) : List Str → Nat → Str → SAddr → List Hit
  | [], _, _, _ => []
  | name :: rest, j, bp1, ad =>
    (if c.μ (.str name) then [⟨mrefPath c bp1 name, ad ++ [.mref j]⟩] else []) ++ ymk c rest (j + 1) bp1 ad

mutual
/-- `search_for_paths(logger, processor, data, terms, pathsep, build_path, seen_anchors, …)` -/
def sNode (c : Ctx) : SNode → Str → SAddr → List Str → Out
  | .seq _ items, bp, ad, seen => sItems c items 0 (seqPrefix c bp) ad seen
  | .map _ own merged refs, bp, ad, seen =>
    let (h1, s1) := sEntries c own (mapPrefix c bp) ad seen
    let (h2, s2) := if c.pooled then sEntries c merged (mapPrefix c bp) ad s1 else ([], s1)
    let h3 := if c.o.inclValueAliases && c.o.searchAnchors then ymk c refs 0 (mapPrefix c bp) ad else []
    (h1 ++ h2 ++ h3, s2)
  | .set _ ms, bp, ad, seen => sMembers c ms (mapPrefix c bp) ad seen
  | .scalar _ v, bp, ad, seen =>
    -- a scalar document (`fixes/C07-5`; `data is not None`); never reached by the recursion
    (if bp = [] ∧ v ≠ .null then valueHit c v (rootFix c bp) ad else [], seen)
def sItems (c : Ctx) : List SNode → Nat → Str → SAddr → List Str → Out
  | [], _, _, _, seen => ([], seen)
  | ele :: rest, i, bp1, ad, seen =>
    let (am, seen1) := searchAnchor c ele.anchor seen c.o.inclValueAliases
    let tmp := itemPath c bp1 i ele.anchor
    let a' := ad ++ [.idx i]
    let (h, seen2) :=
      if am = .aliasExcluded || (am = .unsearchableAlias && !c.o.inclValueAliases) then ([], seen1)
      else if am.hit then emit c ele tmp a' seen1
      else match ele with
        | .scalar _ v => (valueHit c v tmp a', seen1)
        | n => sNode c n tmp a' seen1
    let (hr, seen3) := sItems c rest (i + 1) bp1 ad seen2
    (h ++ hr, seen3)
def sEntries (c : Ctx) : List (AKey × SNode) → Str → SAddr → List Str → Out
  | [], _, _, seen => ([], seen)
  | (k, v) :: rest, bp1, ad, seen =>
    let tmp := keyPath c bp1 k.key
    let a' := ad ++ [.key k.key]
    let (vam, seen1) := searchAnchor c v.anchor seen c.o.inclValueAliases
    let (kam, seen2) := if c.o.searchKeys then searchAnchor c k.anchor seen1 c.o.inclKeyAliases
                        else (AM.noAnchor, seen1)
    let (h, seen3) :=
      if c.o.searchKeys && (kam.hit ||
          ((c.o.inclKeyAliases || !kam.unwantedAlias) && c.μ (keyScalar k.key))) then emit c v tmp a' seen2
      else if vam = .aliasExcluded || (vam = .unsearchableAlias && !c.o.inclValueAliases) then ([], seen2)
      else if vam.hit then emit c v tmp a' seen2
      else match v with
        | .scalar _ s => (valueHit c s tmp a', seen2)
        | n => sNode c n tmp a' seen2
    let (hr, seen4) := sEntries c rest bp1 ad seen3
    (h ++ hr, seen4)
end

/-- The whole search of one document: the yielded `YAMLPath` texts with their addresses. -/
def search (c : Ctx) (d : SNode) : List Hit := (sNode c d [] [] []).1

/-! ## Printing: `str(YAMLPath(text))` and the de-duplication loop of `process_yaml_file` -/

/-- `str(YAMLPath(text))` (the separator is inferred from the text, as the constructor does) -/
def printed (t : Str) : Except PErr Str :=
  match (PathObj.new t).str with
  | .ok (r, _) => .ok r
  | .error e => .error e

/-- "Record only unique results": keep the first of the entries with the same printed text -/
def dedup : List Str → List Str → List Str
  | [], _ => []
  | s :: rest, have_ => if have_.contains s then dedup rest have_ else s :: dedup rest (have_ ++ [s])

/-! ## `get_search_term` -/

structure Term where
  inv : Bool
  m : Method
  term : Str
  deriving DecidableEq, Repr, Inhabited

/-- `PathSearchMethods.is_operator(c)` for one character, or `!` -/
def isLeadOperator (ch : Char) : Bool :=
  ch = '!' || ch = '%' || ch = '$' || ch = '=' || ch = '^' || ch = '>' || ch = '<'

/-- `get_search_term(logger, expression)`: `none` is the logged error (the tool exits 1);
`AttributeError` / `IndexError` are the crash outcomes of a first segment that is no search. -/
def getSearchTerm (expr : Str) : Except Err (Option Term) :=
  match expr with
  | [] => .ok none
  | ch :: rest =>
    if !isLeadOperator ch then .ok none
    else if rest = [] then .ok none
    else match parse true ("[*".toList ++ expr ++ [']']) with
      | .error e => if e.isCrash then .error (.crash .other) else .ok none
      | .ok [] => .error (.crash .indexError)
      | .ok ((_, .search inv m _ term) :: _) => .ok (some ⟨inv, m, term⟩)
      | .ok _ => .error (.crash .attributeError)

/-- the term test of a parsed expression, from `searchMatches` and the regex oracle; `none` when
`searchMatches` has no Boolean answer for this text -/
def matchOf (rx : Str → Str → Option Bool) (t : Term) (v : Scalar) : Option Bool :=
  match searchMatches rx t.m v t.term with
  | .ok b => some (yieldIf t.inv b)
  | .error _ => none

def Ctx.ofTerm (o : Opts) (rx : Str → Str → Option Bool) (t : Term) : Ctx :=
  { o := o, μ := fun v => (matchOf rx t v).getD false }

end Ypv.Search
