import Ypv.Model.Compare
/-!
# Search keywords: `KeywordSearches.{has_child,name,max,min,parent,distinct,unique}` and the
parameter splitter `SearchKeywordTerms.parameters`

Mirrors `yamlpath/common/keywordsearches.py` and `yamlpath/path/searchkeywordterms.py` branch for
branch, over the `Node` type; results are addresses.  `max`/`min` follow the code *as it reads after
the proposed repairs `fixes/C13-1.patch`* (a member whose attribute is null is not comparable) *and
`fixes/C13-2.patch`* (the splitter's `ValueError` and the `IndexError` of `match_key[0]` on an empty
parameter are raised as YAML Path errors).  Every remaining Python failure mode outside the YAML
Path exception family is a `crash` outcome: `ValueError` from the splitter itself (`splitParams`),
`TypeError` from grouping by an unhashable (container) value.
-/
namespace Ypv

/-! ## The parameter splitter -/

structure SplitSt where
  param : Str            -- the parameter being collected, reversed
  params : List Str      -- finished parameters, reversed
  esc : Bool             -- `escape_next`
  stack : List Char      -- `demarc_stack`, top first (`demarc_count` is its length throughout)
  deriving Repr, DecidableEq

def splitStep (st : SplitSt) (c : Char) : SplitSt :=
  if st.esc then { st with esc := false, param := c :: st.param }
  else if c = '\\' then { st with esc := true }
  else if c = ' ' && st.stack.isEmpty then st
  else if c = '"' || c = '\'' then
    match st.stack with
    | top :: rest =>
      if c = top then
        if rest.isEmpty then { st with stack := rest }
        else { st with stack := rest, param := c :: st.param }
      else { st with stack := c :: st.stack, param := c :: st.param }
    | [] => { st with stack := [c] }
  else if st.stack.isEmpty && c = ',' then { st with params := st.param.reverse :: st.params, param := [] }
  else { st with param := c :: st.param }

/-- `SearchKeywordTerms.parameters`: the comma-separated parameters; an unmatched quote is a
`ValueError`. -/
def splitParams (s : Str) : Except Err (List Str) :=
  let st := s.foldl splitStep { param := [], params := [], esc := false, stack := [] }
  if !st.stack.isEmpty then .error (.crash .valueError)
  else if st.param.isEmpty then .ok st.params.reverse
  else .ok (st.param.reverse :: st.params).reverse

/-! ## Helpers on nodes -/

def Node.isMap : Node → Bool | .map .. => true | _ => false
def Node.isNull : Node → Bool | .scalar _ .null => true | _ => false
def Node.scalar? : Node → Option Scalar | .scalar _ v => some v | _ => none

/-- `Nodes.node_is_aoh(items, accept_nulls=…)` for the items of a list. -/
def isAoh (acceptNulls : Bool) (items : List Node) : Bool :=
  items.all (fun n => n.isMap || (acceptNulls && n.isNull))

/-- `name in mapping` / `mapping[name]` for a text `name` (only string keys can match). -/
def attrOf (es : List (Key × Node)) (name : Str) : Option Node := es.lookup (.str name)

def keyRef (k : Key) : Ref := .key k

/-- What a keyword search yields: node addresses, or — for `name()` — the key/index itself. -/
inductive KwOut
  | nodes (as : List Addr)
  | name (r : Option Ref)
  deriving DecidableEq, Repr, Inhabited

def ypathErr : Err := .ypath .generic

/-! ## has_child -/

/-- `match_key in data` for a list of nodes: some element equals the text. -/
def listHasText (items : List Node) (k : Str) : Bool :=
  items.any (fun n => match n with | .scalar _ (.str s) => s = k | _ => false)

def hasChildMap (es : List (Key × Node)) (a : Addr) (inv : Bool) (k : Str) : List Addr :=
  if yieldIf inv (attrOf es k).isSome then [a] else []

/-- `_has_concrete_child` over the elements of an Array-of-Hashes. -/
def hasChildAoh (inv : Bool) (k : Str) (a : Addr) : List Node → Nat → List Addr
  | [], _ => []
  | .map _ es :: rest, i => hasChildMap es (a ++ [.idx i]) inv k ++ hasChildAoh inv k a rest (i + 1)
  | _ :: rest, i => hasChildAoh inv k a rest (i + 1)

def hasConcreteChild (data : Node) (a : Addr) (inv : Bool) (k : Str) : Except Err (List Addr) :=
  match data with
  | .map _ es => .ok (hasChildMap es a inv k)
  | .seq _ items =>
    if isAoh false items then .ok (hasChildAoh inv k a items 0)
    else .ok (if yieldIf inv (listHasText items k) then [a] else [])
  | .scalar _ .null => .ok (if inv then [a] else [])
  | .scalar .. => .error ypathErr
  | .set .. => .error .outOfModel

def hasChild (data : Node) (a : Addr) (inv : Bool) (ps : List Str) : Except Err KwOut :=
  match ps with
  | [k] =>
    match k with
    | [] => .error ypathErr                      -- an empty child name is refused (fixes/C13-2.patch)
    | '&' :: _ => .error .outOfModel             -- anchored children are not modelled
    | _ => (hasConcreteChild data a inv k).map .nodes
  | _ => .error ypathErr

/-! ## name, parent -/

def kwName (a : Addr) (inv : Bool) (ps : List Str) : Except Err KwOut :=
  if ps.length > 1 then .error ypathErr
  else if inv then .error ypathErr
  else .ok (.name a.getLast?)

def kwParent (a : Addr) (inv : Bool) (ps : List Str) : Except Err KwOut :=
  if ps.length > 1 then .error ypathErr
  else if inv then .error ypathErr
  else
    let levels? : Option Int := match ps with
      | p :: _ => pyInt? p
      | [] => some 1
    match levels? with
    | none => .error ypathErr                    -- int() raised ValueError: wrapped by the code
    | some levels =>
      if levels > (a.length : Int) then .error ypathErr
      else if levels < 1 then .ok (.nodes [a])
      else .ok (.nodes [a.take (a.length - levels.toNat)])

/-! ## max / min -/

/-- The members of a collection as the `max`/`min` loops see them: the address of each member and
its comparable value (`none`: the member goes to the discard list without a comparison). -/
abbrev Cand := Addr × Option Scalar

structure MM where
  best : Option Scalar       -- `match_value` (`None` until a comparable member was seen)
  hits : List Addr           -- `match_nodes`
  discards : List Addr       -- `discard_nodes`
  deriving Repr, DecidableEq

def noRx : Str → Str → Option Bool := fun _ _ => none

/-- One iteration of the scan: `better` is `GREATER_THAN` for `max`, `LESS_THAN` for `min`;
the member's value is the haystack, the best value so far the needle. -/
def mmStep (better : Method) (st : MM) (c : Cand) : Except Err MM :=
  match c.2 with
  | none => .ok { st with discards := st.discards ++ [c.1] }
  | some x =>
    match st.best with
    | none => .ok { best := some x, hits := [c.1], discards := st.discards ++ st.hits }
    | some b =>
      match searchMatchesScalar noRx better x b with
      | .error e => .error e
      | .ok true => .ok { best := some x, hits := [c.1], discards := st.discards ++ st.hits }
      | .ok false =>
        match searchMatchesScalar noRx .equals x b with
        | .error e => .error e
        | .ok true => .ok { st with hits := st.hits ++ [c.1] }
        | .ok false => .ok { st with discards := st.discards ++ [c.1] }

def mmScan (better : Method) : MM → List Cand → Except Err MM
  | st, [] => .ok st
  | st, c :: cs =>
    match mmStep better st c with
    | .error e => .error e
    | .ok st' => mmScan better st' cs

/-- The comparable value of an attribute node: a non-null scalar; containers are out of model. -/
def comparable (n : Node) : Except Err (Option Scalar) :=
  match n with
  | .scalar _ .null => .ok none
  | .scalar _ v => .ok (some v)
  | _ => .error .outOfModel

/-- Members of an Array-of-Hashes (nulls accepted) under the attribute `name`. -/
def candsAoh (name : Str) (a : Addr) : List Node → Nat → Except Err (List Cand)
  | [], _ => .ok []
  | n :: rest, i =>
    let v : Except Err (Option Scalar) := match n with
      | .map _ es => match attrOf es name with
        | some x => comparable x
        | none => .ok none
      | _ => .ok none
    match v, candsAoh name a rest (i + 1) with
    | .error e, _ => .error e
    | .ok _, .error e => .error e
    | .ok v, .ok cs => .ok ((a ++ [.idx i], v) :: cs)

/-- Members of a hash of hashes under the attribute `name`; `inData` is `name in data`. -/
def candsMap (name : Str) (inData : Bool) (a : Addr) : List (Key × Node) → Except Err (List Cand)
  | [] => .ok []
  | (k, n) :: rest =>
    let v : Except Err (Option Scalar) := match n with
      | .map _ es => match attrOf es name with
        | some x => comparable x
        | none => .ok none
      | _ => if inData then .error ypathErr else .ok none
    match v with
    | .error e => .error e
    | .ok v => match candsMap name inData a rest with
      | .error e => .error e
      | .ok cs => .ok ((a ++ [.key k], v) :: cs)

/-- Members of a plain list. -/
def candsList (a : Addr) : List Node → Nat → Except Err (List Cand)
  | [], _ => .ok []
  | n :: rest, i =>
    match comparable n with
    | .error e => .error e
    | .ok v => match candsList a rest (i + 1) with
      | .error e => .error e
      | .ok cs => .ok ((a ++ [.idx i], v) :: cs)

/-- The members the `max`/`min`/`unique`/`distinct` loops walk, by the shape of `data`;
`none` = non-complex data. -/
def mmCands (data : Node) (a : Addr) (scan : Option Str) : Except Err (Option (List Cand)) :=
  match data with
  | .seq _ items =>
    if isAoh true items then
      match scan with
      | none => .error ypathErr
      | some name => (candsAoh name a items 0).map some
    else
      match scan with
      | some _ => .error ypathErr
      | none => (candsList a items 0).map some
  | .map _ es =>
    match scan with
    | none => .error ypathErr
    | some name => (candsMap name (attrOf es name).isSome a es).map some
  | .scalar .. => .ok none
  | .set .. => .error .outOfModel

def kwMinMax (better : Method) (data : Node) (a : Addr) (inv : Bool) (ps : List Str) : Except Err KwOut :=
  if ps.length > 1 then .error ypathErr
  else
    match mmCands data a ps.head? with
    | .error e => .error e
    | .ok none => .ok (.nodes (if inv then [] else [a]))
    | .ok (some cs) =>
      match mmScan better { best := none, hits := [], discards := [] } cs with
      | .error e => .error e
      | .ok st => .ok (.nodes (if inv then st.discards else st.hits))

/-! ## unique / distinct -/

/-- Python `==` between scalars used as `dict` keys (`True == 1 == 1.0`). -/
def pyEq (a b : Scalar) : Bool :=
  match typedKey a, typedKey b with
  | some (m1, e1), some (m2, e2) => decCmp m1 e1 m2 e2 == .eq
  | none, none => a == b
  | _, _ => false
where
  typedKey : Scalar → Option (Int × Int)
    | .bool b => some (if b then 1 else 0, 0)
    | .int i => some (i, 0)
    | .float m e => some (m, e)
    | _ => none

/-- `seen_values`: insertion-ordered groups of members by value. -/
abbrev Groups := List (Scalar × List Addr)

def groupInsert (g : Groups) (v : Scalar) (a : Addr) : Groups :=
  match g with
  | [] => [(v, [a])]
  | (k, as) :: rest => if pyEq k v then (k, as ++ [a]) :: rest else (k, as) :: groupInsert rest v a

/-- The group key of a member value: any scalar (null included); a container is unhashable. -/
def groupKey (n : Node) : Except Err Scalar :=
  match n with
  | .scalar _ v => .ok v
  | .seq .. | .map .. => .error (.crash .typeError)
  | .set .. => .error .outOfModel

def groupAoh (name : Str) (a : Addr) : Groups → List Node → Nat → Except Err Groups
  | g, [], _ => .ok g
  | g, n :: rest, i =>
    match n with
    | .map _ es =>
      match attrOf es name with
      | some x =>
        match groupKey x with
        | .error e => .error e
        | .ok v => groupAoh name a (groupInsert g v (a ++ [.idx i])) rest (i + 1)
      | none => groupAoh name a g rest (i + 1)
    | _ => groupAoh name a g rest (i + 1)

def groupMap (name : Str) (inData : Bool) (a : Addr) : Groups → List (Key × Node) → Except Err Groups
  | g, [] => .ok g
  | g, (k, n) :: rest =>
    match n with
    | .map _ es =>
      match attrOf es name with
      | some x =>
        match groupKey x with
        | .error e => .error e
        | .ok v => groupMap name inData a (groupInsert g v (a ++ [.key k])) rest
      | none => groupMap name inData a g rest
    | _ => if inData then .error ypathErr else groupMap name inData a g rest

def groupList (a : Addr) : Groups → List Node → Nat → Except Err Groups
  | g, [], _ => .ok g
  | g, n :: rest, i =>
    match groupKey n with
    | .error e => .error e
    | .ok v => groupList a (groupInsert g v (a ++ [.idx i])) rest (i + 1)

def kwGroups (data : Node) (a : Addr) (scan : Option Str) : Except Err (Option Groups) :=
  match data with
  | .seq _ items =>
    if isAoh true items then
      match scan with
      | none => .error ypathErr
      | some name => (groupAoh name a [] items 0).map some
    else
      match scan with
      | some _ => .error ypathErr
      | none => (groupList a [] items 0).map some
  | .map _ es =>
    match scan with
    | none => .error ypathErr
    | some name => (groupMap name (attrOf es name).isSome a [] es).map some
  | .scalar .. => .ok none
  | .set .. => .error .outOfModel

def kwDistinct (data : Node) (a : Addr) (inv : Bool) (ps : List Str) : Except Err KwOut :=
  if inv then .error ypathErr
  else if ps.length > 1 then .error ypathErr
  else
    match kwGroups data a ps.head? with
    | .error e => .error e
    | .ok none => .ok (.nodes [a])
    | .ok (some g) => .ok (.nodes (g.filterMap (fun grp => grp.2.head?)))

def kwUnique (data : Node) (a : Addr) (inv : Bool) (ps : List Str) : Except Err KwOut :=
  if ps.length > 1 then .error ypathErr
  else
    match kwGroups data a ps.head? with
    | .error e => .error e
    | .ok none => .ok (.nodes (if inv then [] else [a]))
    | .ok (some g) =>
      .ok (.nodes ((g.filter (fun grp => if inv then 1 < grp.2.length else grp.2.length = 1)).flatMap (·.2)))

/-! ## Dispatch -/

/-- `KeywordSearches.search_matches(terms, data, …)` at the node `data` held at address `a`. -/
def kwSearch (data : Node) (a : Addr) (inv : Bool) (kw : Keyword) (rawParams : Str) : Except Err KwOut :=
  match splitParams rawParams with
  | .error _ => .error ypathErr        -- `except ValueError: raise YAMLPathException` (fixes/C13-2.patch)
  | .ok ps =>
    match kw with
    | .distinct => kwDistinct data a inv ps
    | .hasChild => hasChild data a inv ps
    | .name => kwName a inv ps
    | .max => kwMinMax .gt data a inv ps
    | .min => kwMinMax .lt data a inv ps
    | .parent => kwParent a inv ps
    | .unique => kwUnique data a inv ps

end Ypv
