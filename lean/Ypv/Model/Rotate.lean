import Ypv.Model.Basic
import Ypv.Model.Py
/-!
# C19 — EYAML key rotation over a document, with an abstract cipher

Models `EYAMLProcessor.is_eyaml_value`, `_find_eyaml_paths`, `decrypt_eyaml`, `encrypt_eyaml`
(`yamlpath/eyaml/eyamlprocessor.py`) and the rotation loop of
`yamlpath/commands/eyaml_rotate_keys.py:main`.

* The cipher is a parameter (`Cipher`): `enc key nonce plaintext`, `dec key cleaned-ciphertext`
  (`none`: the external command exits non-zero).  Its laws are hypotheses of the theorems.
* Values are immutable; nodes carrying the same anchor name are one node: the first visit of an
  anchored node rotates it and records the result, later visits (aliases) take the recorded node.
  For an aliased *scalar* Python skips the alias (`seen_anchors`); an aliased *container* is walked
  again and every bare secret in it — by now under the new key — is decrypted with the old key
  once more, which fails and makes the tool exit with status 3 (`reFail`).
* The layout of a re-encrypted value (one line, or folded block with line breaks) is not
  modelled: values are compared after `clean` (which is all `is_eyaml_value`/`decrypt_eyaml` see).
-/
namespace Ypv.Rotate
open Ypv

/-- `value.replace("\n", "").replace(" ", "")` -/
def clean (s : Str) : Str := (s.filter (fun c => c ≠ '\n')).filter (fun c => c ≠ ' ')

def marker : Str := "ENC[".toList

/-- `EYAMLProcessor.is_eyaml_value` on a string. -/
def isEyaml (s : Str) : Bool := marker.isPrefixOf (clean s)

/-- … on any scalar (`isinstance(value, str)` first). -/
def isSecret : Scalar → Bool
  | .str s => isEyaml s
  | _ => false

/-- `str.rstrip()` (ASCII). -/
def pyRstrip (s : Str) : Str := (s.reverse.dropWhile isPyWs).reverse

structure Cipher where
  /-- key id → nonce (number of earlier encryptions of this run) → plaintext → ciphertext -/
  enc : Str → Nat → Str → Str
  /-- key id → cleaned ciphertext → what the command prints (`none`: non-zero exit) -/
  dec : Str → Str → Option Str

/-- `decrypt_eyaml` on an encrypted string: `none` is `EYAMLCommandException`. -/
def decryptValue (C : Cipher) (k : Str) (s : Str) : Option Str :=
  let c := pyRstrip (clean s)
  match C.dec k c with
  | none => none
  | some out =>
    let r := pyRstrip out
    if r = [] ∨ r = c then none else some r

/-- `encrypt_eyaml`: a plaintext that itself looks encrypted is returned as it is (no call);
an empty answer of the command is an `EYAMLCommandException` (`none`). -/
def encryptValue (C : Cipher) (k : Str) (n : Nat) (p : Str) : Option (Str × Bool) :=
  if isEyaml p then some (p, false)
  else
    let c := C.enc k n p
    if pyRstrip c = [] then none else some (c, true)

structure St where
  seen : List (Str × Node)   -- anchor name ↦ the node after its rotation
  nonce : Nat                -- encryptions so far
  decs : Nat                 -- decryptions so far
  failed : Bool              -- `exit_state = 3`
  changed : Bool             -- `file_changed`
  deriving Repr, Inhabited

def St.init : St := ⟨[], 0, 0, false, false⟩

/-- decrypt with the old key, re-encrypt with the new one. -/
def rotValue (C : Cipher) (old new : Str) (s : Str) (st : St) : Scalar × St :=
  match decryptValue C old s with
  | none => (.str s, { st with decs := st.decs + 1, failed := true })
  | some p =>
    match encryptValue C new st.nonce p with
    | none => (.str s, { st with decs := st.decs + 1, failed := true })
    | some (c, called) =>
      (.str c, { st with decs := st.decs + 1, nonce := if called then st.nonce + 1 else st.nonce, changed := true })

mutual
/-- does the node hold an encrypted scalar that is not itself anchored (found again — and
decrypted again — when an alias of an enclosing container is walked)? -/
def hasBareSecret : Node → Bool
  | .scalar none v => isSecret v
  | .scalar (some _) _ => false
  | .seq _ xs => hasBareSecretL xs
  | .map _ es => hasBareSecretE es
  | .set _ _ => false
def hasBareSecretL : List Node → Bool
  | [] => false
  | x :: xs => hasBareSecret x || hasBareSecretL xs
def hasBareSecretE : List (Key × Node) → Bool
  | [] => false
  | (_, x) :: es => hasBareSecret x || hasBareSecretE es
end

mutual
/-- The rotation loop in document order.  The document root is only walked when it is a
sequence or a mapping (`_find_eyaml_paths`), so `rotNode` is applied to children; see `rotate`. -/
def rotNode (C : Cipher) (old new : Str) : Node → St → Node × St
  | .scalar a v, st =>
    match v with
    | .str s =>
      if isEyaml s then
        match a with
        | some an =>
          match st.seen.lookup an with
          | some n' => (n', st)
          | none =>
            let r := rotValue C old new s st
            (.scalar a r.1, { r.2 with seen := (an, .scalar a r.1) :: r.2.seen })
        | none =>
          let r := rotValue C old new s st
          (.scalar a r.1, r.2)
      else (.scalar a v, st)
    | _ => (.scalar a v, st)
  | .seq a xs, st =>
    match a with
    | some an =>
      match st.seen.lookup an with
      | some n' => (n', { st with failed := st.failed || hasBareSecret n' })
      | none =>
        let r := rotList C old new xs st
        (.seq a r.1, { r.2 with seen := (an, .seq a r.1) :: r.2.seen })
    | none =>
      let r := rotList C old new xs st
      (.seq a r.1, r.2)
  | .map a es, st =>
    match a with
    | some an =>
      match st.seen.lookup an with
      | some n' => (n', { st with failed := st.failed || hasBareSecret n' })
      | none =>
        let r := rotEntries C old new es st
        (.map a r.1, { r.2 with seen := (an, .map a r.1) :: r.2.seen })
    | none =>
      let r := rotEntries C old new es st
      (.map a r.1, r.2)
  | .set a ms, st => (.set a ms, st)
def rotList (C : Cipher) (old new : Str) : List Node → St → List Node × St
  | [], st => ([], st)
  | x :: xs, st =>
    let r := rotNode C old new x st
    let r' := rotList C old new xs r.2
    (r.1 :: r'.1, r'.2)
def rotEntries (C : Cipher) (old new : Str) : List (Key × Node) → St → List (Key × Node) × St
  | [], st => ([], st)
  | (k, x) :: es, st =>
    let r := rotNode C old new x st
    let r' := rotEntries C old new es r.2
    ((k, r.1) :: r'.1, r'.2)
end

/-- The whole run on one loaded document: a scalar (or set) document is not searched at all. -/
def rotate (C : Cipher) (old new : Str) (d : Node) : Node × St :=
  match d with
  | .scalar .. | .set .. => (d, St.init)
  | _ => rotNode C old new d St.init

/-- Exit status contribution of one file. -/
def exitOf (st : St) : Nat := if st.failed then 3 else 0

mutual
/-- no encrypted scalar anywhere below (what `find_eyaml_paths` would report) -/
def noSecret : Node → Bool
  | .scalar _ v => !isSecret v
  | .seq _ xs => noSecretL xs
  | .map _ es => noSecretE es
  | .set _ _ => true
def noSecretL : List Node → Bool
  | [] => true
  | x :: xs => noSecret x && noSecretL xs
def noSecretE : List (Key × Node) → Bool
  | [] => true
  | (_, x) :: es => noSecret x && noSecretE es
end

/-! ## The stand-in cipher of `harness/tools/fake_eyaml` (ASCII plaintexts)

`ENC[FAKE,<key id>,<hex of the plaintext>]`; the decrypting command prints the plaintext followed
by a line break unless it already ends with one (Ruby `puts`). -/

def hexDigit (n : Nat) : Char := if n < 10 then Char.ofNat (n + 48) else Char.ofNat (n + 87)

def hexVal (c : Char) : Option Nat :=
  if '0' ≤ c ∧ c ≤ '9' then some (c.toNat - 48)
  else if 'a' ≤ c ∧ c ≤ 'f' then some (c.toNat - 87)
  else none

def hexOf (p : Str) : Str := p.flatMap fun c => [hexDigit (c.toNat / 16), hexDigit (c.toNat % 16)]

def unhex : Str → Option Str
  | [] => some []
  | [_] => none
  | a :: b :: r =>
    match hexVal a, hexVal b, unhex r with
    | some x, some y, some rest => some (Char.ofNat (x * 16 + y) :: rest)
    | _, _, _ => none

def fakePrefix : Str := "ENC[FAKE,".toList

def fakeEnc (k : Str) (_n : Nat) (p : Str) : Str := fakePrefix ++ k ++ [','] ++ hexOf p ++ [']']

def isKeyChar (c : Char) : Bool := ('a' ≤ c && c ≤ 'z') || ('0' ≤ c && c ≤ '9')

def fakeDec (k : Str) (c : Str) : Option Str :=
  if fakePrefix.isPrefixOf c then
    let rest := c.drop fakePrefix.length
    let kid := rest.takeWhile isKeyChar
    let body := rest.dropWhile isKeyChar
    match body with
    | ',' :: hx =>
      if kid ≠ [] ∧ kid = k ∧ hx.getLast? = some ']' then
        (unhex hx.dropLast).map fun p => if p.getLast? = some '\n' then p else p ++ ['\n']
      else none
    | _ => none
  else none

def fakeCipher : Cipher := ⟨fakeEnc, fakeDec⟩

end Ypv.Rotate
