import Ypv.Model.Eval
import Ypv.Model.Parser
import Ypv.Model.MergeConfig
/-!
# COLLECTOR segments: `_get_nodes_by_collector`, `_collector_addition`, `_collector_subtraction`,
`_collector_intersection`, and `_get_required_nodes` over collector results — with the document as
explicit state

Core Lean only.  The evaluator of `Model/Eval.lean` is a pure function; `_collector_subtraction`
is not (`del updated_coords[idx].deepest_node_coord.node[key]` removes key-value pairs from the
DOCUMENT, known finding C09-F1), so this file threads a state `St` (the document, the deletions made
so far, and a flag recording that a subtraction met a hash on its left) through the evaluation:
`requiredM fuel segs r st : Gen CRes × St`.

* A collector keeps its inner path as TEXT (`CollectorTerms.expression`) and parses it when it is
  evaluated: `segsOf` runs the parser model (`parse`, `Model/Parser.lean`); a parse error is the
  YAML Path error the evaluation raises at that moment.  The nesting of collector texts is bounded
  by `fuel` (exhausted fuel is `outOfModel`; the top-level entry points are given the text length).
* Values flowing between segments are `CRes`: a `NodeCoords` around a document node (`real`), around
  a Python list of `NodeCoords` (`virt`: a slice result, a collector result) or around another
  `NodeCoords` (`wrap`: what indexing a virtual list yields, what the `[[value]] → [value]`
  flattening of a virtual list yields).
* Non-collector segments on document nodes are the handlers of `Model/Eval.lean` (`stepSeg`), with
  the CURRENT document as `rt`.  `*` / `**` directly followed by a collector stay `outOfModel`
  (their probe would run the collector, mutation included, once more per child).
* The model mirrors the code as after `fixes/C01-3.patch`: the operands after the first collector
  are read from the unescaped segments, as the first one is (the pinned code reads them from the
  escape-stripped segments, so `(a\.b)+(c\.d)` looks for `c` → `d`).
* Results hold document nodes by reference in Python; here they hold values, so after every deletion
  the live values (accumulator, ambient data, pending and delivered results) are synchronised by
  address (`applyDel`).  Aliased containers (one object at two addresses) are outside the model.
  A deletion whose target is not at or below the node the collector was applied to (only reachable
  through `[parent()]`) is fenced (`outOfModel`): a suspended generator might be iterating there.
* Coordinates: `Ctx.addr` is the true address of a `real` node and `parent`/`pref`/`anc`/`path` are as
  the code reports them (including the flattening quirk: the elements of a single list result get the
  LIST's parent as parent).  For `virt`/`wrap` wrappers only `parent` (is it a dict?) and `pref`
  are meaningful.
-/
namespace Ypv.W3
open Ypv Ypv.Eval

/-! ## Values -/

/-- A `NodeCoords` object. -/
inductive CRes
  | real (n : Node) (c : Ctx)
  | virt (items : List CRes) (c : Ctx)
  | wrap (inner : CRes) (c : Ctx)
  deriving Repr, Inhabited

def CRes.ctx : CRes → Ctx
  | .real _ c | .virt _ c | .wrap _ c => c

mutual
/-- `NodeCoords.unwrap_node_coords` (a Python list of results becomes a list value). -/
def CRes.unwrap : CRes → Node
  | .real n _ => n
  | .virt items _ => .seq none (unwrapList items)
  | .wrap e _ => e.unwrap
def unwrapList : List CRes → List Node
  | [] => []
  | x :: xs => x.unwrap :: unwrapList xs
end

/-- `NodeCoords.deepest_node_coord` -/
def CRes.deepest : CRes → CRes
  | .wrap e _ => e.deepest
  | r => r

mutual
/-- The document nodes a result stands for, in order (virtual results flattened). -/
def CRes.leaves : CRes → List NC
  | .real n c => [(n, c)]
  | .virt items _ => leavesList items
  | .wrap e _ => e.leaves
def leavesList : List CRes → List NC
  | [] => []
  | x :: xs => x.leaves ++ leavesList xs
end

/-! ## The state: the document and what was deleted from it -/

structure St where
  doc : Node
  /-- the `del node[key]` executed so far: address of the hash, key -/
  dels : List (Addr × Key)
  /-- a subtraction collector met a hash among its left operand's results (class of C09-F1) -/
  hashSub : Bool
  deriving Repr

def St.init (d : Node) : St := { doc := d, dels := [], hashSub := false }

def delKey (k : Key) : Node → Node
  | .map a es => .map a (es.filter (fun kv => kv.1 != k))
  | n => n

mutual
/-- Change exactly the node at an address (nothing when the address leads nowhere). -/
def modifyAt (g : Node → Node) : Node → Addr → Node
  | n, [] => g n
  | .seq a items, r :: rest =>
    match r with
    | .idx i => .seq a (modifyList g items i rest)
    | _ => .seq a items
  | .map a es, r :: rest =>
    match r with
    | .key k => .map a (modifyEntries g es k rest)
    | _ => .map a es
  | .set a ms, _ :: _ => .set a ms
  | .scalar a v, _ :: _ => .scalar a v
def modifyList (g : Node → Node) : List Node → Nat → Addr → List Node
  | [], _, _ => []
  | c :: cs, 0, rest => modifyAt g c rest :: cs
  | c :: cs, i + 1, rest => c :: modifyList g cs i rest
def modifyEntries (g : Node → Node) : List (Key × Node) → Key → Addr → List (Key × Node)
  | [], _, _ => []
  | (k', c) :: es, k, rest =>
    if k' = k then (k', modifyAt g c rest) :: es else (k', c) :: modifyEntries g es k rest
end

/-- `del node[key]` for the hash at address `a`. -/
def delKeyAt (k : Key) (d : Node) (a : Addr) : Node := modifyAt (delKey k) d a

/-- `dropPrefix? p a = some s` iff `a = p ++ s`. -/
def dropPrefix? : Addr → Addr → Option Addr
  | [], a => some a
  | _ :: _, [] => none
  | p :: ps, x :: xs => if p = x then dropPrefix? ps xs else none

mutual
/-- A result after `del node[key]` at address `a` (results refer to live objects). -/
def CRes.applyDel (a : Addr) (k : Key) : CRes → CRes
  | .real n c =>
    .real (match dropPrefix? c.addr a with
      | some suf => delKeyAt k n suf
      | none => n) c
  | .virt items c => .virt (applyDelList a k items) c
  | .wrap e c => .wrap (e.applyDel a k) c
def applyDelList (a : Addr) (k : Key) : List CRes → List CRes
  | [] => []
  | x :: xs => x.applyDel a k :: applyDelList a k xs
end

def CRes.applyDels (ds : List (Addr × Key)) (r : CRes) : CRes :=
  ds.foldl (fun r d => r.applyDel d.1 d.2) r

/-- The deletions made between two states of one evaluation. -/
def newDels (st st' : St) : List (Addr × Key) := st'.dels.drop st.dels.length

def syncAll (st st' : St) (l : List CRes) : List CRes := l.map (CRes.applyDels (newDels st st'))

/-! ## Non-collector segments over `CRes` -/

/-- A result of the pure handlers as a `CRes`; the wrapper of a slice has the sliced list as parent. -/
def ofRes (c : Ctx) : Res → CRes
  | .real (n, c') => .real n c'
  | .virt items => .virt (items.map (fun x => CRes.real x.1 x.2)) { c with parent := some c.addr }

mutual
/-- The KEY pass-through over the members of a Python list of results
(`_get_nodes_by_path_segment(element, …)` unwraps ONE `NodeCoords` level). -/
def keyThrough (k : Str) : CRes → Gen CRes
  | .real n c => (keyStep k true n c).map (fun x => CRes.real x.1 x.2)
  | .virt items _ => keyThroughList k items
  | .wrap _ _ => Gen.nil
def keyThroughList (k : Str) : List CRes → Gen CRes
  | [] => Gen.nil
  | x :: xs => Gen.append (keyThrough k x) (keyThroughList k xs)
end

/-- Coordinates of `NodeCoords(data[idx], data, idx, …)` for a Python list `data` of results
(`parent := none`: the parent is no document node, in particular no dict). -/
def virtChildCtx (c : Ctx) (i : Int) : Ctx :=
  { addr := c.addr, parent := none, pref := some (.idx i),
    anc := c.anc ++ [(c.addr, .idx i)], path := c.path ++ [idxSection i] }

def virtElemAt (items : List CRes) (i : Int) (c : Ctx) : Gen CRes :=
  if inRange items.length i then
    match pyGetItem items i with
    | .ok e => Gen.one (.wrap e (virtChildCtx c i))
    | .error e => Gen.fail e
  else Gen.nil

def virtSlice (lo hi : Str) (items : List CRes) (c : Ctx) : Gen CRes :=
  match pyInt? lo, pyInt? hi with
  | some a, some b =>
    if a = b ∧ inRange items.length a = true then
      match pyGetItem items a with
      | .ok e => Gen.one (.virt [.wrap e (virtChildCtx c a)] (virtChildCtx c a))
      | .error e => Gen.fail e
    else
      Gen.one (.virt ((sliceIndices items.length a b).filterMap (fun j =>
        items[j]?.map (fun e => CRes.wrap e (virtChildCtx c (Int.ofNat j))))) (virtChildCtx c a))
  | _, _ => Gen.fail (.ypath .typeMismatch)

/-- A segment applied to a Python list of results. -/
def stepVirtC (s : ESeg) (items : List CRes) (c : Ctx) : Gen CRes :=
  match s with
  | .key k =>
    match pyInt? k with
    | some i => virtElemAt items i c
    | none => keyThroughList k items
  | .index i => virtElemAt items i c
  | .slice lo hi => virtSlice lo hi items c
  | _ => Gen.fail .outOfModel

/-- A segment applied to a `NodeCoords` that wraps a `NodeCoords` (no dict, list or set). -/
def stepOnNC (s : ESeg) : Gen CRes :=
  match s with
  | .key _ | .index _ | .slice .. => Gen.nil
  | _ => Gen.fail .outOfModel

/-- The data a segment sees: `_get_nodes_by_path_segment` unwraps one `NodeCoords` level. -/
def CRes.data : CRes → CRes
  | .wrap e _ => e
  | r => r

variable (mt : Matcher) (dsc : Node → Desc)

/-- One non-collector segment (`rt`: the current document). -/
def stepPlain (rt : Node) (s : ESeg) (rest : List ESeg) (r : CRes) : Gen CRes :=
  match r.data with
  | .real n c => (stepSeg mt (dsc rt) rt s rest true n c).map (ofRes c)
  | .virt items c => stepVirtC s items c
  | .wrap _ _ => stepOnNC s

/-! ## Parsing an inner path -/

/-- The segment as the evaluator reads it, a collector with the expression of the UNESCAPED parse
(`yaml_path.unescaped[i]`; model = code after fixes/C01-3). -/
def unescExpr (e u : Seg) : ESeg :=
  match ESeg.ofSeg e, ESeg.ofSeg u with
  | .collector _ op, .collector x _ => .collector x op
  | s, _ => s

def zipSegs : List Seg → List Seg → List ESeg
  | e :: es, u :: us => unescExpr e u :: zipSegs es us
  | _, _ => []

def errOfPErr : PErr → Err
  | .ypath _ => .ypath .generic
  | .crash _ => .crash .other

/-- `YAMLPath(text)`: `.escaped` segments, collector expressions from `.unescaped`. -/
def segsOf (text : Str) : Except Err (List ESeg) :=
  match parse true text with
  | .error e => .error (errOfPErr e)
  | .ok es =>
    match parse false text with
    | .error e => .error (errOfPErr e)
    | .ok us => if es.length = us.length then .ok (zipSegs es us) else .error .outOfModel

/-! ## The collector operators -/

/-- The evaluation of an inner path (`_get_required_nodes(data, YAMLPath(expr), 0, …)`). -/
abbrev Inner := List ESeg → CRes → St → Gen CRes × St

def evalExpr (inner : Inner) (expr : Str) (r : CRes) (st : St) : Gen CRes × St :=
  match segsOf expr with
  | .error e => (Gen.fail e, st)
  | .ok segs => inner segs r st

/-- The `[[value]] → [value]` unwrapping of a single result that is a document list: every element
gets the LIST's parent, path and ancestry, and its own index. -/
def flatQuirk (c : Ctx) : List Node → Nat → List CRes
  | [], _ => []
  | x :: xs, i =>
    .real x { addr := c.addr ++ [.idx i], parent := c.parent, pref := some (.idx (Int.ofNat i)),
              anc := c.anc, path := c.path } :: flatQuirk c xs (i + 1)

/-- … and of a single result that is a virtual list: every member is wrapped once more. -/
def wrapQuirk (c : Ctx) : List CRes → Nat → List CRes
  | [], _ => []
  | e :: es, i => .wrap e { c with pref := some (.idx (Int.ofNat i)) } :: wrapQuirk c es (i + 1)

def gatherFirst : List CRes → List CRes
  | [.real (.seq _ items) c] => flatQuirk c items 0
  | [.virt items c] => wrapQuirk c items 0
  | l => l

/-- `_collector_addition`: the elements of a document list get coordinates below it, with the
AMBIENT ancestry. -/
def addElems (amb c : Ctx) : List Node → Nat → List CRes
  | [], _ => []
  | x :: xs, i =>
    .real x { addr := c.addr ++ [.idx i], parent := some c.addr, pref := some (.idx (Int.ofNat i)),
              anc := amb.anc ++ [(c.addr, .idx (Int.ofNat i))], path := c.path ++ [idxSection (Int.ofNat i)] }
      :: addElems amb c xs (i + 1)

def addExpand (amb : Ctx) : CRes → List CRes
  | .real (.seq _ items) c => addElems amb c items 0
  | .virt items _ => items
  | r => [r]

/-- An element of `rem_data`: `{parentref: node}` (a plain dict) or a raw value. -/
inductive RemEl
  | plain (k : Key) (v : Node)
  | raw (n : Node)
  deriving Repr, Inhabited

def RemEl.val : RemEl → Node
  | .plain k v => .map none [(k, v)]
  | .raw n => n

def prefKey : Option PRef → Option Key
  | some (.key k) | some (.member k) => some k
  | some (.idx i) => some (.int i)
  | none => none

/-- `parentref` as a Python value. -/
def prefScalar (p : Option PRef) : Scalar :=
  match prefKey p with
  | some k => k.toScalar
  | none => .null

def parentIsMap (d : Node) (c : Ctx) : Bool :=
  match c.parent with
  | some p =>
    match d.get? p with
    | some (.map ..) => true
    | _ => false
  | none => false

/-- `get_del_nodes` -/
def getDel (d : Node) (r : CRes) : List RemEl :=
  match r.unwrap with
  | .seq _ items => items.map RemEl.raw
  | .set _ ms => ms.map (fun k => RemEl.raw k.toNode)
  | u =>
    match parentIsMap d r.ctx, prefKey r.ctx.pref with
    | true, some k => [.plain k u]
    | _, _ => [.raw u]

def isPrefixStr : Str → Str → Bool
  | [], _ => true
  | _ :: _, [] => false
  | a :: as, b :: bs => a == b && isPrefixStr as bs

/-- Python `needle in hay` on `str`. -/
def isSubStr (needle : Str) : Str → Bool
  | [] => needle.isEmpty
  | c :: cs => isPrefixStr needle (c :: cs) || isSubStr needle cs

/-- `lhs.parentref in rhs` -/
def prefIn (p : Option PRef) : RemEl → Except Err Bool
  | .plain k _ => .ok (prefKey p == some k)
  | .raw (.map _ es) =>
    .ok (match prefKey p with
      | some k => es.any (fun kv => kv.1 == k)
      | none => false)
  | .raw (.set _ ms) =>
    .ok (match prefKey p with
      | some k => ms.contains k
      | none => false)
  | .raw (.seq _ items) => .ok (items.any (fun x => Merge.pyEq (.scalar none (prefScalar p)) x))
  | .raw (.scalar _ (.str s)) =>
    match prefScalar p with
    | .str t => .ok (isSubStr t s)
    | _ => .error (.crash .typeError)
  | .raw (.scalar _ (.opaque _)) => .error .outOfModel
  | .raw (.scalar _ _) => .error (.crash .typeError)

/-- The `for rhs in rem_data` loop for one hash `lhs`: `append_node`, and the `(rem_idx, key)` pairs
recorded for deletion. -/
def subScan (lhsEs : List (Key × Node)) (p : Option PRef) (idx : Nat) :
    List RemEl → Bool → List (Nat × Key) → Except Err (Bool × List (Nat × Key))
  | [], ap, ds => .ok (ap, ds)
  | rhs :: more, ap, ds =>
    match prefIn p rhs with
    | .error e => .error e
    | .ok b =>
      match rhs with
      | .raw (.map ..) => subScan lhsEs p idx more (ap && !b) ds
      | .raw _ => .error (.crash .attributeError)
      | .plain k v =>
        match lhsEs.lookup k with
        | some x =>
          if Merge.pyEq x v then subScan lhsEs p idx more (ap && !b) (ds ++ [(idx, k)])
          else subScan lhsEs p idx more (ap && !b) ds
        | none => subScan lhsEs p idx more (ap && !b) ds

def remHas (rem : List RemEl) (u : Node) : Bool := rem.any (fun r => Merge.pyEq u r.val)

/-- The `for lhs in lhs_ncs` loop of `_collector_subtraction`. -/
def subLoop (rem : List RemEl) : List CRes → List CRes → List (Nat × Key) →
    Except Err (List CRes × List (Nat × Key))
  | [], upd, ds => .ok (upd, ds)
  | lhs :: more, upd, ds =>
    match lhs.unwrap with
    | .map a es =>
      if remHas rem (.map a es) then subLoop rem more upd ds
      else
        match subScan es lhs.ctx.pref upd.length rem true ds with
        | .error e => .error e
        | .ok (ap, ds') => subLoop rem more (if ap then upd ++ [lhs.deepest] else upd) ds'
    | .seq a items =>
      if remHas rem (.seq a items) || Merge.pyEqList (rem.map RemEl.val) items then subLoop rem more upd ds
      else subLoop rem more (upd ++ [lhs.deepest]) ds
    | u =>
      if remHas rem u then subLoop rem more upd ds
      else subLoop rem more (upd ++ [lhs.deepest]) ds

/-- Where `del updated_coords[idx].deepest_node_coord.node[key]` deletes. -/
def delTarget (amb : Ctx) (t : CRes) (k : Key) : Except Err Addr :=
  match t.deepest with
  | .real (.map _ es) c =>
    if es.any (fun kv => kv.1 == k) then
      (if (dropPrefix? amb.addr c.addr).isSome then .ok c.addr else .error .outOfModel)
    else .error (.crash .keyError)
  | .real (.seq ..) _ | .virt .. =>
    match k with
    | .str _ => .error (.crash .typeError)
    | .int _ => .error .outOfModel
  | _ => .error (.crash .typeError)

/-- The `for idx, key in rem_dels` loop. -/
def delLoop (amb : Ctx) : List (Nat × Key) → List CRes → St → Option Err × List CRes × St
  | [], upd, st => (none, upd, st)
  | (i, k) :: more, upd, st =>
    match upd[i]? with
    | none => (some (.crash .indexError), upd, st)
    | some t =>
      match delTarget amb t k with
      | .error e => (some e, upd, st)
      | .ok a =>
        delLoop amb more (upd.map (CRes.applyDel a k))
          { st with doc := delKeyAt k st.doc a, dels := st.dels ++ [(a, k)] }

/-- `deeply_unwrap_nodes` -/
def interVals (r : CRes) : List Node :=
  match r.unwrap with
  | .seq _ items => items
  | u => [u]

/-- `_collector_intersection` -/
def interStep (acc rhs : List CRes) : List CRes :=
  let vals := rhs.flatMap interVals
  acc.filter (fun nc => vals.any (fun v => Merge.pyEq nc.unwrap v))

/-- The `while` loop of `_get_nodes_by_collector` over the following operator collectors.
`r`: the data the collector was applied to; `acc`: `node_coords`. -/
def foldOps (inner : Inner) (amb : Ctx) : List ESeg → CRes → List CRes → St → Except Err (List CRes) × St
  | .collector expr op :: rest, r, acc, st =>
    match op with
    | .none => (.error (.ypath .generic), st)
    | .add =>
      match evalExpr inner expr r st with
      | ((_, some e), st1) => (.error e, st1)
      | ((res, none), st1) =>
        foldOps inner amb rest (r.applyDels (newDels st st1))
          (syncAll st st1 acc ++ res.flatMap (addExpand amb)) st1
    | .inter =>
      match evalExpr inner expr r st with
      | ((_, some e), st1) => (.error e, st1)
      | ((res, none), st1) =>
        foldOps inner amb rest (r.applyDels (newDels st st1)) (interStep (syncAll st st1 acc) res) st1
    | .sub =>
      match evalExpr inner expr r st with
      | ((_, some e), st1) => (.error e, st1)
      | ((res, none), st1) =>
        let acc1 := syncAll st st1 acc
        let st2 : St := { st1 with hashSub := st1.hashSub || acc1.any (fun l => l.unwrap.isMap) }
        match subLoop (res.flatMap (getDel st1.doc)) acc1 [] [] with
        | .error e => (.error e, st2)
        | .ok (upd, ds) =>
          match delLoop amb ds upd st2 with
          | (some e, _, st3) => (.error e, st3)
          | (none, upd', st3) => foldOps inner amb rest (r.applyDels (newDels st st3)) upd' st3
  | _, _, acc, st => (.ok acc, st)

/-- `_get_nodes_by_collector` (operation NONE) applied to the data `r`. -/
def collectStep (inner : Inner) (expr : Str) (rest : List ESeg) (r : CRes) (st : St) : Gen CRes × St :=
  match evalExpr inner expr r st with
  | ((_, some e), st1) => (Gen.fail e, st1)
  | ((res, none), st1) =>
    match foldOps inner r.ctx rest (r.applyDels (newDels st st1)) (gatherFirst res) st1 with
    | (.error e, st2) => (Gen.fail e, st2)
    | (.ok [], st2) => (Gen.nil, st2)
    | (.ok (x :: xs), st2) => (Gen.one (.virt (x :: xs) r.ctx), st2)

/-- `_get_nodes_by_path_segment` with the document as state. -/
def stepM (inner : Inner) (s : ESeg) (rest : List ESeg) (r : CRes) (st : St) : Gen CRes × St :=
  match s with
  | .collector expr .none =>
    match r.data with
    | .wrap _ _ => (Gen.fail .outOfModel, st)
    | d => collectStep inner expr rest d st
  | .collector _ _ =>
    -- an operator collector was consumed by the collector before it: `yield data`
    match r.data with
    | .virt items c => (Gen.one (.virt items c), st)
    | _ => (Gen.fail .outOfModel, st)
  | s => (stepPlain mt dsc st.doc s rest r, st)

/-- `for x in l: yield from f x`, the state passed along; results refer to live objects, so the
pending ones (current at `st0`) and the delivered ones are synchronised with every deletion. -/
def bindS (f : CRes → St → Gen CRes × St) (st0 : St) : List CRes → St → Gen CRes × St
  | [], st => (Gen.nil, st)
  | x :: xs, st =>
    match f (x.applyDels (newDels st0 st)) st with
    | ((res, some e), st1) => ((res, some e), st1)
    | ((res, none), st1) =>
      match bindS f st0 xs st1 with
      | (h, st2) => ((syncAll st1 st2 res ++ h.1, h.2), st2)

/-- `_get_required_nodes` given the evaluation of inner paths. -/
def requiredW (inner : Inner) : List ESeg → CRes → St → Gen CRes × St
  | [], r, st => (Gen.one r, st)
  | s :: rest, r, st =>
    match stepM mt dsc inner s rest r st with
    | (g, st1) =>
      match bindS (requiredW inner rest) st1 g.1 st1 with
      | ((res, some e), st2) => ((res, some e), st2)
      | ((res, none), st2) => ((res, g.2), st2)

/-- `_get_required_nodes`; `fuel` bounds the nesting of collector texts. -/
def requiredM : Nat → Inner
  | 0 => fun _ _ st => (Gen.fail .outOfModel, st)
  | f + 1 => requiredW mt dsc (requiredM f)

/-- `Processor.get_nodes(path, mustexist=True)` -/
def getRequiredM (fuel : Nat) (segs : List ESeg) (d : Node) : Gen CRes × St :=
  if d.evIsNull then (Gen.nil, St.init d) else
  match requiredM mt dsc fuel segs (.real d Ctx.root) (St.init d) with
  | (g, st) => (Gen.append g (if g.1.isEmpty then Gen.fail (.ypath .unmatched) else Gen.nil), st)

/-- `Processor.exists(path)` -/
def existsM (fuel : Nat) (segs : List ESeg) (d : Node) : Except Err Bool × St :=
  if d.evIsNull then (.ok false, St.init d) else
  match requiredM mt dsc fuel segs (.real d Ctx.root) (St.init d) with
  | (g, st) =>
    (match g.collapse with
     | .ok l => .ok (!l.isEmpty)
     | .error e => .error e, st)

/-- `get_nodes(text, mustexist=True)` from the path TEXT (parsed by the parser model). -/
def queryM (text : Str) (d : Node) : Gen CRes × St :=
  if d.evIsNull then (Gen.nil, St.init d) else
  match segsOf text with
  | .error e => (Gen.fail e, St.init d)
  | .ok segs => getRequiredM mt dsc (text.length + 1) segs d

end Ypv.W3
