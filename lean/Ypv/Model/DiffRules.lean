import Ypv.Model.Diff
/-!
# Per-path comparison modes of `yamlpath.differ` (C06): the `[rules]` and `[keys]` sections

`DifferConfig.prepare(rhs)` resolves every path of the `[rules]` / `[keys]` sections of the configuration
file against the RIGHT document (`Processor.get_nodes`, the C01–C05 matter: the model takes the addresses
that step found) and stores the `NodeCoords` (node, parent, parentref) of every match with the configured
text.  `DifferConfig._get_config_for(node_coord, section)` returns the text of the FIRST stored entry whose
node `==` the asked node, whose parent `==` the asked parent and whose parentref `==` the asked parentref —
Python `==`, not identity (finding C06-K3: an equal list below an equal parent elsewhere takes the entry).

`Differ._diff_lists` asks with `NodeCoords(rhs, rhs_parent, parentref)`; the parentref the Differ hands down
is the mapping key, `pos + 1` under positional list comparison (the Processor counts from 0 — an entry for a
list inside a positionally compared list never matches its own list) and the right index under the
synchronised comparisons.  Precedence (`array_diff_mode` / `aoh_diff_mode`): `[rules]` > command line >
`[defaults]` > POSITION; `glob : Cfg` is the resolved command line / defaults pair (`resolveCfg`).

Uncaught non-library exceptions are outcomes of the model (`Crash`): `ArrayDiffOpts.from_str` /
`AoHDiffOpts.from_str` on a `[rules]` text that is not one of their names is `Crash.nameError` — also for an
Array-of-Hashes-only mode (`dpos`, `key`, `deep`) when `array_diff_mode` is asked, which happens for `dpos` on
a record list, a documented mode (finding C06-K4) —; `lhs_ele[use_key]` for a per-record identity key the left
record does not have is `Crash.keyError`.

Everything else (`_diff_dicts`, `_diff_sets`, `_purge_document`, …) is `Model/Diff.lean`; the functions
below are its comparers with the coordinate of the right node threaded through.
-/
namespace Ypv.Diff.Rules
open Ypv Ypv.Diff

/-- uncaught non-library exceptions of the per-path configuration -/
inductive Crash
  | nameError   -- `AoHDiffOpts.from_str` / `ArrayDiffOpts.from_str` on a text that names no mode
  | keyError    -- `lhs_ele[use_key]`
  deriving DecidableEq, Repr, Inhabited

/-- `NodeCoords(node, parent, parentref)` -/
structure Coord where
  node : Node
  parent : Option Node
  pref : Option Key
  deriving Repr, Inhabited

/-- one item of `DifferConfig.rules` / `DifferConfig.keys` -/
structure RuleEntry where
  nc : Coord
  text : Str
  deriving Repr, Inhabited

/-- `==` of two parents (`None == None`) -/
def optEqv : Option Node → Option Node → Bool
  | none, none => true
  | some a, some b => eqv a b
  | _, _ => false

/-- the test of `_get_config_for` -/
def coordMatch (e q : Coord) : Bool := eqv e.node q.node && optEqv e.parent q.parent && (e.pref == q.pref)

/-- `DifferConfig._get_config_for`: the text of the first matching entry, `""` when there is none -/
def getConfigFor : List RuleEntry → Coord → Str
  | [], _ => []
  | e :: es, q => if coordMatch e.nc q then e.text else getConfigFor es q

def refKey : Ref → Key
  | .key k => k
  | .idx i => .int i
  | .member k => k

/-- the `NodeCoords` `Processor.get_nodes` yields for the node at address `a` of `r` -/
def coordAt (r : Node) (a : Addr) : Option Coord :=
  match a.reverse with
  | [] => some ⟨r, none, none⟩
  | last :: revInit =>
    match r.get? revInit.reverse, r.get? a with
    | some p, some n => some ⟨n, some p, some (refKey last)⟩
    | _, _ => none

/-- `_prepare_user_rules`: one entry per matched node, in the order of the section -/
def entriesOf (r : Node) : List (Addr × Str) → List RuleEntry
  | [] => []
  | (a, t) :: rest =>
    match coordAt r a with
    | some nc => ⟨nc, t⟩ :: entriesOf r rest
    | none => entriesOf r rest

/-- what is fixed during one `compare_to` -/
structure PCfg where
  glob : Cfg
  rules : List RuleEntry
  keys : List RuleEntry
  deriving Repr, Inhabited

/-- `DifferConfig.prepare(rhs)` -/
def prepare (glob : Cfg) (r : Node) (rules keys : List (Addr × Str)) : PCfg :=
  ⟨glob, entriesOf r rules, entriesOf r keys⟩

/-- no configuration file -/
def PCfg.plain (c : Cfg) : PCfg := ⟨c, [], []⟩

def upper (t : Str) : Str := t.map Char.toUpper

/-- `array_diff_mode` -/
def arrModeAt (pc : PCfg) (q : Coord) : Except Crash ArrayMode :=
  let t := getConfigFor pc.rules q
  if t = [] then .ok pc.glob.arr else
  match arrayModeNames.lookup (upper t) with
  | some m => .ok m
  | none => .error .nameError

/-- `aoh_diff_mode` -/
def aohModeAt (pc : PCfg) (q : Coord) : Except Crash AoHMode :=
  let t := getConfigFor pc.rules q
  if t = [] then .ok pc.glob.aoh else
  match aohModeNames.lookup (upper t) with
  | some m => .ok m
  | none => .error .nameError

def arrToList (deep : Bool) : ArrayMode → ListMode
  | .value => .value
  | .position => if deep then .posDeep else .posShallow

/-- `_diff_lists` → `_diff_arrays_of_hashes` / `_diff_arrays_of_scalars` with the modes of the coordinate -/
def listModeAt (pc : PCfg) (q : Coord) (xs ys : List Node) : Except Crash ListMode :=
  let exemplar := match ys with
    | [] => xs
    | _ :: _ => ys
  match exemplar with
  | [] => .ok .nothing
  | e :: _ =>
    if isMap e then
      match aohModeAt pc q with
      | .error c => .error c
      | .ok .position => (arrModeAt pc q).map (arrToList false)
      | .ok .dpos => (arrModeAt pc q).map (arrToList true)
      | .ok .value => .ok .value
      | .ok .key => .ok .key
      | .ok .deep => .ok .deep
    else (arrModeAt pc q).map (arrToList true)

/-! ## identity keys -/

/-- the second lookup of `aoh_diff_key`: the first `[keys]` entry whose node `==` the asked parent -/
def parentKey : List RuleEntry → Option Node → Str
  | [], _ => []
  | e :: es, p => if optEqv p (some e.nc.node) then e.text else parentKey es p

/-- `DifferConfig.aoh_diff_key`: `(diff_key, is_user_key)`; `""` is `Key.str []` -/
def aohDiffKey (pc : PCfg) (q : Coord) : Key × Bool :=
  let t := getConfigFor pc.keys q
  let t := if t = [] then parentKey pc.keys q.parent else t
  if t = [] then
    match q.node with
    | .map _ ((k, _) :: _) => (k, false)
    | _ => (.str [], true)
  else (.str t, true)

/-- `key_attr` of `synchronize_lods_by_key` -/
def keyAttrAt (pc : PCfg) (par : Node) : List Node → Key
  | .map a es :: _ => (aohDiffKey pc ⟨.map a es, some par, some (.int 0)⟩).1
  | _ => .str []

/-- `use_key` for one right-hand record -/
def useKey (pc : PCfg) (par : Node) (ka : Key) (y : Nat × Node) : Key :=
  let ak := aohDiffKey pc ⟨y.2, some par, some (.int y.1)⟩
  if ak.2 && ak.1 != .str [] then ak.1 else ka

/-- one round of the inner loop: does the right-hand record `y` belong to the left record `x`? -/
def matchAt (pc : PCfg) (par : Node) (ka : Key) (x : Node) (y : Nat × Node) : Except Crash Bool :=
  let uk := useKey pc par ka y
  match keyVal uk y.2 with
  | none => .ok false
  | some w =>
    match keyVal uk x with
    | some v => .ok (eqv w v)
    | none => .error .keyError

/-- the first element for which the test holds, removed; a crash of the test before that aborts -/
def removeFirstAt (f : Nat × Node → Except Crash Bool) : List (Nat × Node) →
    Except Crash (Option ((Nat × Node) × List (Nat × Node)))
  | [] => .ok none
  | y :: ys =>
    match f y with
    | .error c => .error c
    | .ok true => .ok (some (y, ys))
    | .ok false =>
      match removeFirstAt f ys with
      | .error c => .error c
      | .ok (some (z, zs)) => .ok (some (z, y :: zs))
      | .ok none => .ok none

/-! ## the comparers -/

abbrev Rep := Except Crash (List Entry)

/-- both parts, in the order the code runs them -/
def Rep.app (a b : Rep) : Rep :=
  match a with
  | .error c => .error c
  | .ok x =>
    match b with
    | .error c => .error c
    | .ok y => .ok (x ++ y)

mutual
/-- `_diff_between` with `rhs_parent` / `parentref` -/
def diffBetween (s : Bool) (pc : PCfg) (p : Addr) (par : Option Node) (pref : Option Key) (l r : Node) : Rep :=
  match l, r with
  | .map _ es, .map b fs =>
    Rep.app (diffDict s pc p (.map b fs) es fs)
      (.ok ((fs.filter (fun kv => !(hasKey es kv.1))).map (fun kv => mkAdd (p ++ [.key kv.1]) kv.2)))
  | .seq _ xs, .seq b ys =>
    match listModeAt pc ⟨.seq b ys, par, pref⟩ xs ys with
    | .error c => .error c
    | .ok .nothing => .ok []
    | .ok .posShallow => .ok (posShallow p 0 xs ys)
    | .ok .posDeep => diffPos s pc p (.seq b ys) 0 xs ys
    | .ok .value =>
      match diffValue s pc p (.seq b ys) 0 xs (enumFrom 0 ys) with
      | .error c => .error c
      | .ok out => .ok (mergeAdds p out.1 out.2)
    | .ok .key => diffKey s pc p (.seq b ys) false (keyAttrAt pc (.seq b ys) ys) 0 xs (enumFrom 0 ys)
    | .ok .deep => diffKey s pc p (.seq b ys) true (keyAttrAt pc (.seq b ys) ys) 0 xs (enumFrom 0 ys)
  | .set _ ms, .set _ ns =>
    .ok (ms.map (fun k => if ns.contains k then (⟨.same, p ++ [.member k], some (keyNode k), some (keyNode k)⟩ : Entry)
                     else mkDel (p ++ [.member k]) (keyNode k))
      ++ (ns.filter (fun k => !(ms.contains k))).map (fun k => mkAdd (p ++ [.member k]) (keyNode k)))
  | .scalar a x, .scalar b y => .ok [scalarEntry p (.scalar a x) (.scalar b y)]
  | .scalar a x, .seq b ys => .ok (purge s p (.scalar a x) ++ addAll s p (.seq b ys))
  | .scalar a x, .map b fs => .ok (purge s p (.scalar a x) ++ addAll s p (.map b fs))
  | .scalar a x, .set b ns => .ok (purge s p (.scalar a x) ++ addAll s p (.set b ns))
  | .seq a xs, .scalar b y => .ok (purge s p (.seq a xs) ++ addAll s p (.scalar b y))
  | .seq a xs, .map b fs => .ok (purge s p (.seq a xs) ++ addAll s p (.map b fs))
  | .seq a xs, .set b ns => .ok (purge s p (.seq a xs) ++ addAll s p (.set b ns))
  | .map a es, .scalar b y => .ok (purge s p (.map a es) ++ addAll s p (.scalar b y))
  | .map a es, .seq b ys => .ok (purge s p (.map a es) ++ addAll s p (.seq b ys))
  | .map a es, .set b ns => .ok (purge s p (.map a es) ++ addAll s p (.set b ns))
  | .set a ms, .scalar b y => .ok (purge s p (.set a ms) ++ addAll s p (.scalar b y))
  | .set a ms, .seq b ys => .ok (purge s p (.set a ms) ++ addAll s p (.seq b ys))
  | .set a ms, .map b fs => .ok (purge s p (.set a ms) ++ addAll s p (.map b fs))
termination_by structural l
/-- `_diff_dicts` (`parentref=key`) -/
def diffDict (s : Bool) (pc : PCfg) (p : Addr) (par : Node) (es0 fs : List (Key × Node)) : Rep :=
  match es0 with
  | [] => .ok []
  | (k, v) :: es =>
    Rep.app
      (match fs.lookup k with
       | some w => diffBetween s pc (p ++ [.key k]) (some par) (some k) v w
       | none => .ok [mkDel (p ++ [.key k]) v])
      (diffDict s pc p par es fs)
termination_by structural es0
/-- `_diff_arrays_of_scalars(diff_deeply=True)` (`parentref=pos + 1`) -/
def diffPos (s : Bool) (pc : PCfg) (p : Addr) (par : Node) (i : Nat) (xs0 ys0 : List Node) : Rep :=
  match xs0, ys0 with
  | [], ys => .ok (addSeq p i ys)
  | x :: xs, [] => Rep.app (.ok [mkDel (p ++ [.idx i]) x]) (diffPos s pc p par (i + 1) xs [])
  | x :: xs, y :: ys =>
    Rep.app (diffBetween s pc (p ++ [.idx i]) (some par) (some (.int (i + 1))) x y) (diffPos s pc p par (i + 1) xs ys)
termination_by structural xs0
/-- `_diff_synced_lists` (`parentref=ridx`) -/
def diffValue (s : Bool) (pc : PCfg) (p : Addr) (par : Node) (i : Nat) (xs0 : List Node) (rem : List (Nat × Node)) :
    Except Crash (List Entry × List (Nat × Node)) :=
  match xs0 with
  | [] => .ok ([], rem)
  | x :: xs =>
    match removeFirst (fun y => eqv y x) rem with
    | some (y, rem') =>
      match diffBetween s pc (p ++ [.idx i]) (some par) (some (.int y.1)) x y.2 with
      | .error c => .error c
      | .ok here =>
        match diffValue s pc p par (i + 1) xs rem' with
        | .error c => .error c
        | .ok rest => .ok (here ++ rest.1, rest.2)
    | none =>
      match diffValue s pc p par (i + 1) xs rem with
      | .error c => .error c
      | .ok rest => .ok (mkDel (p ++ [.idx i]) x :: rest.1, rest.2)
termination_by structural xs0
/-- `_diff_arrays_of_hashes` over `synchronize_lods_by_key` (`parentref=ridx` / `lidx`) -/
def diffKey (s : Bool) (pc : PCfg) (p : Addr) (par : Node) (deep : Bool) (ka : Key) (i : Nat) (xs0 : List Node)
    (rem : List (Nat × Node)) : Rep :=
  match xs0 with
  | [] => .ok (rem.map (fun y => mkAdd (p ++ [.idx y.1]) y.2))
  | x :: xs =>
    match keyVal ka x with
    | none => Rep.app (.ok [mkDel (p ++ [.idx i]) x]) (diffKey s pc p par deep ka (i + 1) xs rem)
    | some _ =>
      match removeFirstAt (matchAt pc par ka x) rem with
      | .error c => .error c
      | .ok (some (y, rem')) =>
        Rep.app
          (if deep then diffBetween s pc (p ++ [.idx y.1]) (some par) (some (.int y.1)) x y.2
           else .ok [scalarEntry (p ++ [.idx i]) x y.2])
          (diffKey s pc p par deep ka (i + 1) xs rem')
      | .ok none => Rep.app (.ok [mkDel (p ++ [.idx i]) x]) (diffKey s pc p par deep ka (i + 1) xs rem)
termination_by structural xs0
end

/-- `compare_to` under a configuration file -/
def diff (s : Bool) (pc : PCfg) (l r : Node) : Rep := diffBetween s pc [] none none l r

/-- the code (after `fixes/C06-1 … C06-4`) -/
def report (glob : Cfg) (rules keys : List (Addr × Str)) (l r : Node) : Rep :=
  diff false (prepare glob r rules keys) l r

end Ypv.Diff.Rules
