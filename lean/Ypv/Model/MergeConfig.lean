import Ypv.Model.Basic
/-!
# Merge policies and their lookup (`yamlpath/merger/mergerconfig.py`, `merger/enums/*.py`)

`MergerConfig.hash_merge_mode / array_merge_mode / aoh_merge_mode / set_merge_mode` answer, for a
right-hand node given as `NodeCoords(node, parent, parentref)`:

    rule registered for the node  >  command-line value  >  `[defaults]` value  >  built-in default

`[rules]` and `[keys]` entries are YAML Paths; `MergerConfig.prepare(rhs)` resolves them against the
right-hand document into `NodeCoords`, and `_get_config_for` finds the first registered entry whose
`node`, `parent` and `parentref` are all `==` (Python value equality) to the queried ones.
The model takes the entries as *addresses* (key / index steps) and resolves them the same way.
Core Lean only.
-/
namespace Ypv.Merge

/-- `HashMergeOpts` -/
inductive HashOpt | deep | left | right
  deriving DecidableEq, Repr, Inhabited
/-- `ArrayMergeOpts` -/
inductive ArrayOpt | all | left | right | unique
  deriving DecidableEq, Repr, Inhabited
/-- `AoHMergeOpts` -/
inductive AohOpt | all | deep | left | right | unique
  deriving DecidableEq, Repr, Inhabited
/-- `SetMergeOpts` -/
inductive SetOpt | left | right | unique
  deriving DecidableEq, Repr, Inhabited

/-- The text of a `[rules]` value, upper-cased by `from_str`; `other` is any text that names no
option of any of the four enumerations. -/
inductive RuleName | all | deep | left | right | unique | other
  deriving DecidableEq, Repr, Inhabited

/-- Outcomes of a failed merge.  `merge` is `MergeException`; `config` is the `NameError` that the
enumerations' `from_str` raise on purpose for a rule text that names no option of the enumeration
that reads it (a configuration error, documented in the `from_str` docstrings); `crash` is any
other Python exception. -/
inductive MErr
  | merge
  | config
  | crash (k : CrashKind)
  | outOfModel
  deriving DecidableEq, Repr, Inhabited

def MErr.isCrash : MErr → Bool
  | .crash _ => true
  | _ => false

/-- `HashMergeOpts.from_str` -/
def RuleName.toHash : RuleName → Except MErr HashOpt
  | .deep => .ok .deep | .left => .ok .left | .right => .ok .right
  | _ => .error .config
/-- `ArrayMergeOpts.from_str` -/
def RuleName.toArray : RuleName → Except MErr ArrayOpt
  | .all => .ok .all | .left => .ok .left | .right => .ok .right | .unique => .ok .unique
  | _ => .error .config
/-- `AoHMergeOpts.from_str` -/
def RuleName.toAoh : RuleName → Except MErr AohOpt
  | .all => .ok .all | .deep => .ok .deep | .left => .ok .left | .right => .ok .right
  | .unique => .ok .unique
  | .other => .error .config
/-- `SetMergeOpts.from_str` -/
def RuleName.toSet : RuleName → Except MErr SetOpt
  | .left => .ok .left | .right => .ok .right | .unique => .ok .unique
  | _ => .error .config

/-! ## Python `==` on document values -/

/-- Is the decimal `m × 10^e` (normalised: `m` without trailing zeros) the integer `i`? -/
def floatEqInt (m e i : Int) : Bool :=
  if e < 0 then false else m * (10 : Int) ^ e.toNat == i

def boolInt (b : Bool) : Int := if b then 1 else 0

/-- Python `==` on scalars: `None` only equals `None`; `bool`, `int`, `float` compare numerically
(`True == 1 == 1.0`); text compares with text. -/
def scalarEq : Scalar → Scalar → Bool
  | .null, .null => true
  | .bool a, .bool b => a == b
  | .bool a, .int i => boolInt a == i
  | .int i, .bool a => boolInt a == i
  | .bool a, .float m e => floatEqInt m e (boolInt a)
  | .float m e, .bool a => floatEqInt m e (boolInt a)
  | .int a, .int b => a == b
  | .int i, .float m e => floatEqInt m e i
  | .float m e, .int i => floatEqInt m e i
  | .float m e, .float m' e' => m == m' && e == e'
  | .str a, .str b => a == b
  | .opaque a, .opaque b => a == b
  | _, _ => false

def lookupKey (k : Key) : List (Key × Node) → Option Node
  | [] => none
  | (k', v) :: rest => if k' = k then some v else lookupKey k rest

def hasKey (k : Key) (es : List (Key × Node)) : Bool := (lookupKey k es).isSome

mutual
/-- Python `==` on document values: sequences element-wise, mappings as dictionaries (key order is
irrelevant), sets as sets; values of different kinds are never equal. -/
def pyEq : Node → Node → Bool
  | .scalar _ a, .scalar _ b => scalarEq a b
  | .seq _ xs, .seq _ ys => pyEqList xs ys
  | .map _ xs, .map _ ys => xs.length == ys.length && pyEqEntries xs ys
  | .set _ xs, .set _ ys => xs.length == ys.length && xs.all (fun k => ys.contains k)
  | _, _ => false
def pyEqList : List Node → List Node → Bool
  | [], [] => true
  | x :: xs, y :: ys => pyEq x y && pyEqList xs ys
  | _, _ => false
/-- every entry of the first list has an equal value under the same key in the second -/
def pyEqEntries : List (Key × Node) → List (Key × Node) → Bool
  | [], _ => true
  | (k, v) :: rest, ys =>
    (match lookupKey k ys with
     | some v' => pyEq v v'
     | none => false) && pyEqEntries rest ys
end

def pyEqOpt : Option Node → Option Node → Bool
  | none, none => true
  | some a, some b => pyEq a b
  | _, _ => false

/-! ## Configuration -/

/-- `NodeCoords(node, parent, parentref)` as values. -/
structure Coords where
  node : Node
  parent : Option Node
  pref : Option Ref

/-- A `[rules]` entry resolved against the right-hand document. -/
structure Rule where
  at_ : Coords
  name : RuleName

/-- A `[keys]` entry resolved against the right-hand document. -/
structure KeyRule where
  at_ : Coords
  key : Str

/-- What the user configured: the four command-line options, the four `[defaults]` entries, the
`[rules]` and `[keys]` sections (addresses into the right-hand document, in file order), and
`Nodes.typed_value` on texts (Python's `ast.literal_eval` — a parameter of the model: the
theorems hold for every such function, the correspondence run supplies the real one). -/
structure Config where
  hashCli : Option HashOpt := none
  arrayCli : Option ArrayOpt := none
  aohCli : Option AohOpt := none
  setCli : Option SetOpt := none
  hashDef : Option HashOpt := none
  arrayDef : Option ArrayOpt := none
  aohDef : Option AohOpt := none
  setDef : Option SetOpt := none
  rules : List (Addr × RuleName) := []
  keys : List (Addr × Str) := []
  tv : Str → Scalar := fun s => .str s

/-- The configuration as it stands after `MergerConfig.prepare(rhs)`. -/
structure Env where
  cfg : Config
  rules : List Rule
  keys : List KeyRule

/-- The `NodeCoords` that `Processor.get_nodes` yields for a path of plain key / index segments. -/
def resolve (doc : Node) (a : Addr) : Option Coords :=
  match a.reverse with
  | [] =>
    match doc with
    | .scalar _ .null => none          -- `get_nodes` yields nothing for an empty (None) document
    | _ => some ⟨doc, none, none⟩
  | last :: revInit =>
    match doc.get? revInit.reverse with
    | none => none
    | some par =>
      match par.child? last with
      | none => none
      | some n => some ⟨n, some par, some last⟩

/-- `MergerConfig.prepare`: entries whose path matches nothing are skipped (a warning is logged). -/
def prepare (cfg : Config) (rhs : Node) : Env :=
  { cfg := cfg
    rules := cfg.rules.filterMap (fun (a, n) => (resolve rhs a).map (fun c => ⟨c, n⟩))
    keys := cfg.keys.filterMap (fun (a, k) => (resolve rhs a).map (fun c => ⟨c, k⟩)) }

def Coords.matches (a b : Coords) : Bool :=
  pyEq a.node b.node && pyEqOpt a.parent b.parent && a.pref == b.pref

/-- `_get_rule_for` / `_get_config_for`: the first registered rule whose coordinates equal the
queried ones. -/
def ruleFor (env : Env) (c : Coords) : Option RuleName :=
  (env.rules.find? (fun r => r.at_.matches c)).map (·.name)

/-- `_get_key_for` -/
def keyFor (env : Env) (c : Coords) : Option Str :=
  (env.keys.find? (fun r => r.at_.matches c)).map (·.key)

/-- The common shape of the four `*_merge_mode` methods:
rule for the node, else command-line value, else `[defaults]` value, else the built-in default. -/
def pick {α : Type} (rule : Option RuleName) (conv : RuleName → Except MErr α)
    (cli dflt : Option α) (builtin : α) : Except MErr α :=
  match rule with
  | some n => conv n
  | none =>
    match cli with
    | some v => .ok v
    | none =>
      match dflt with
      | some v => .ok v
      | none => .ok builtin

def hashMode (env : Env) (c : Coords) : Except MErr HashOpt :=
  pick (ruleFor env c) RuleName.toHash env.cfg.hashCli env.cfg.hashDef .deep
def arrayMode (env : Env) (c : Coords) : Except MErr ArrayOpt :=
  pick (ruleFor env c) RuleName.toArray env.cfg.arrayCli env.cfg.arrayDef .all
def aohMode (env : Env) (c : Coords) : Except MErr AohOpt :=
  pick (ruleFor env c) RuleName.toAoh env.cfg.aohCli env.cfg.aohDef .all
def setMode (env : Env) (c : Coords) : Except MErr SetOpt :=
  pick (ruleFor env c) RuleName.toSet env.cfg.setCli env.cfg.setDef .unique

/-- `node_merge_rule` (added by fix C05-2): only a rule registered for the node itself. -/
def nodeRule (env : Env) (c : Coords) : Except MErr (Option AohOpt) :=
  match ruleFor env c with
  | some n => (RuleName.toAoh n).map some
  | none => .ok none

/-- `aoh_merge_key`: the key registered for the first record, else the key registered for a node
equal to the record's parent (the list), else the first key of the record, else `""`. -/
def aohMergeKey (env : Env) (c : Coords) (firstEntries : List (Key × Node)) : Key :=
  match keyFor env c with
  | some k => if k.isEmpty then fallback else .str k
  | none => fallback
where
  fallback : Key :=
    match env.keys.find? (fun r => pyEqOpt c.parent (some r.at_.node)) with
    | some r => if r.key.isEmpty then first else .str r.key
    | none => first
  first : Key :=
    match firstEntries with
    | (k, _) :: _ => k
    | [] => .str []

end Ypv.Merge
