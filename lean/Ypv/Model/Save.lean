import Ypv.Model.Basic
/-!
# C17 — abstract file system, save sequences and tool phases

Models `yamlpath/commands/yaml_set.py` (`write_output_document`, `save_to_file`,
`save_to_yaml_file`, `save_to_json_file`, `main`), `yamlpath/commands/yaml_merge.py`
(`validateargs`, `write_output_document`, `main`) and the save part of
`yamlpath/commands/eyaml_rotate_keys.py` (`main`).

* A file system is a map from path names to optional byte strings.
* A save is a *list of primitive steps* (what the tool asks of the operating system, in order).
  A step may fail; a failing step has no effect of its own (a short write followed by an error is
  a shorter chunk followed by a failing chunk: the theorems quantify over every chunking).
* After a failing step Python unwinds: `with open(...)` blocks close their files, which flushes
  buffered text — so more bytes may still reach a file that is *currently open for writing*.
  `Cleanup` describes exactly that: appends to / closes of handles still open.
* The control flow of each tool is a sequence of phases; every phase consults an `Oracle`
  (what the arguments, the input files and the library calls decide) and either goes on or exits.
-/
namespace Ypv.Save
open Ypv

abbrev Bytes := List UInt8

/-- path ↦ content (`none`: no such file). -/
abbrev FS := Str → Option Bytes

def FS.set (fs : FS) (p : Str) (v : Option Bytes) : FS := fun q => if q = p then v else fs q

/-- Primitive steps (system-call granularity). -/
inductive Step
  | stat (p : Str)                    -- `exists`, `isfile`, `access`: reads the directory entry
  | openRead (p : Str)                -- `open(p, 'r'|'rb')` (and the reads through it)
  | unlink (p : Str)                  -- `os.remove(p)`
  | creatTrunc (p : Str)              -- `open(p, 'w'|'wb')`: create or truncate
  | append (p : Str) (chunk : Bytes)  -- one `write`/`sendfile` through a handle opened on `p`
  | setMeta (p : Str)                 -- `utime`/`chmod`/`setxattr` of `copystat`
  | close (p : Str)                   -- close of a handle opened for writing on `p`
  deriving DecidableEq, Repr, Inhabited

/-- The path whose *bytes or existence* the step can change. -/
def Step.writes : Step → Option Str
  | .unlink p | .creatTrunc p | .append p _ => some p
  | _ => none

/-- A step that cannot change any file's bytes or existence. -/
def Step.readOnly (s : Step) : Bool := s.writes.isNone

def apply (fs : FS) : Step → FS
  | .unlink p => fs.set p none
  | .creatTrunc p => fs.set p (some [])
  | .append p c => fs.set p (some ((fs p).getD [] ++ c))
  | _ => fs

def run (fs : FS) (steps : List Step) : FS := steps.foldl apply fs

/-- Handles open for writing after a step list, starting from the handles `st`. -/
def openWFrom (st : List Str) : List Step → List Str
  | [] => st
  | .creatTrunc p :: r => openWFrom (p :: st) r
  | .close p :: r => openWFrom (st.filter (fun q => q ≠ p)) r
  | .stat _ :: r | .openRead _ :: r | .unlink _ :: r | .append _ _ :: r | .setMeta _ :: r => openWFrom st r

/-- Handles open for writing after a step list. -/
def openW (l : List Step) : List Str := openWFrom [] l

/-- What may still happen after a failing step while Python unwinds: buffered data is flushed to,
and handles are closed on, files that were open for writing at the moment of the fault. -/
def Cleanup (done : List Step) (cl : List Step) : Prop :=
  ∀ s ∈ cl, ∃ p, p ∈ openW done ∧ ((∃ c, s = .append p c) ∨ s = .close p)

instance (done cl : List Step) : Decidable (Cleanup done cl) := by
  unfold Cleanup
  have : ∀ s : Step, Decidable (∃ p, p ∈ openW done ∧ ((∃ c, s = .append p c) ∨ s = .close p)) := by
    intro s
    cases s with
    | append p c =>
      exact if h : p ∈ openW done then isTrue ⟨p, h, Or.inl ⟨c, rfl⟩⟩
        else isFalse (by
          rintro ⟨q, hq, (⟨c', hc⟩ | hc)⟩
          · cases hc; exact h hq
          · cases hc)
    | close p =>
      exact if h : p ∈ openW done then isTrue ⟨p, h, Or.inr rfl⟩
        else isFalse (by
          rintro ⟨q, hq, (⟨c', hc⟩ | hc)⟩
          · cases hc
          · cases hc; exact h hq)
    | stat p => exact isFalse (by rintro ⟨q, _, (⟨c', hc⟩ | hc)⟩ <;> cases hc)
    | openRead p => exact isFalse (by rintro ⟨q, _, (⟨c', hc⟩ | hc)⟩ <;> cases hc)
    | unlink p => exact isFalse (by rintro ⟨q, _, (⟨c', hc⟩ | hc)⟩ <;> cases hc)
    | creatTrunc p => exact isFalse (by rintro ⟨q, _, (⟨c', hc⟩ | hc)⟩ <;> cases hc)
    | setMeta p => exact isFalse (by rintro ⟨q, _, (⟨c', hc⟩ | hc)⟩ <;> cases hc)
  exact List.decidableBAll _ cl

/-- The file system after a fault at step `k` (steps `0 … k-1` done, step `k` failed, then `cl`). -/
def runFault (fs : FS) (steps : List Step) (k : Nat) (cl : List Step) : FS :=
  run (run fs (steps.take k)) cl

/-! ## Save sequences -/

def bakOf (t : Str) : Str := t ++ ".bak".toList

/-- `shutil.copy2(src, dst)`: `copyfile` (open both, `sendfile`/`write` loop) then `copystat`
(`utime`, `chmod`); `chunks` are the pieces in which the content of `src` travels. -/
def copy2 (src dst : Str) (chunks : List Bytes) : List Step :=
  [.openRead src, .creatTrunc dst] ++ chunks.map (.append dst) ++ [.close dst, .setMeta dst, .setMeta dst]

/-- The `if args.backup:` block shared by the three tools:
`if exists(bak): remove(bak)` then `copy2(target, bak)`.  `saw` is what `os.path.exists` answered
(it answers `False` also when the `stat` call itself fails, so it is not tied to the file system). -/
def backupSteps (saw : Bool) (t : Str) (oc : List Bytes) : List Step :=
  [.stat (bakOf t)] ++ (if saw then [.unlink (bakOf t)] else []) ++ copy2 t (bakOf t) oc

/-- `with open(t, 'w') as f: dump(data, f)` — the new text reaches the file in chunks `nc`. -/
def writeSteps (t : Str) (nc : List Bytes) : List Step :=
  [.creatTrunc t] ++ nc.map (.append t) ++ [.close t]

/-- Which writer runs. -/
inductive Writer
  | setYaml      -- yaml-set `save_to_yaml_file`: copies the target to a temporary file first
  | setJson      -- yaml-set `save_to_json_file`
  | mergeOverwrite  -- yaml-merge `--overwrite`
  | rotate       -- eyaml-rotate-keys
  deriving DecidableEq, Repr, Inhabited

/-- The write part (after the optional backup). -/
def writePart (w : Writer) (t : Str) (nc : List Bytes) : List Step :=
  match w with
  | .setYaml => .openRead t :: writeSteps t nc
  | _ => writeSteps t nc

/-- A complete save: optional backup, then the write part.  `oc` are the chunks in which the
backup copy travels (their concatenation is what is read from the target), `nc` those of the new text. -/
def saveSteps (saw : Bool) (w : Writer) (backup : Bool) (t : Str) (oc nc : List Bytes) : List Step :=
  (if backup then backupSteps saw t oc else []) ++ writePart w t nc

/-- yaml-set's `except AssertionError` path of `save_to_yaml_file`: the dump stops after chunks
`nc`, the file is closed, re-opened, the temporary copy (chunks `rc`) is written back, and the
backup — if one was taken — is removed; the tool then exits with status 3. -/
def restoreSteps (saw : Bool) (backup : Bool) (t : Str) (oc nc rc : List Bytes) : List Step :=
  (if backup then backupSteps saw t oc else []) ++
  ([.openRead t, .creatTrunc t] ++ nc.map (.append t) ++ [.close t] ++ writeSteps t rc) ++
  (if backup then [.unlink (bakOf t)] else [])

/-- yaml-merge `--output o` (the file must not exist: checked by `validateargs`). -/
def outputSteps (o : Str) (nc : List Bytes) : List Step := writeSteps o nc

/-! ## Tool control flow as phases -/

inductive Phase
  | parseArgs | validate | load | query | check | apply | render | save | done
  deriving DecidableEq, Repr, Inhabited

def Phase.beforeSave : Phase → Bool
  | .save | .done => false
  | _ => true

/-- What the inputs decide in each phase (`true`: the phase goes on).  Every pre-write failure
cause of the property is one of these turning `false`. -/
structure Oracle where
  argsOk : Bool      -- argparse accepts the command line                      (else exit 2)
  validOk : Bool     -- validateargs finds no error other than "output exists"  (else exit 1)
  loadOk : Bool      -- every input document is readable and parses            (set: 1, merge: 3/4)
  queryOk : Bool     -- required path matched (`--mustexist`, `--saveto`, `--delete`)  (exit 1)
  checkOk : Bool     -- `--check` value matches                                (exit 20)
  applyOk : Bool     -- the change / the merge is possible (incl. anchor conflicts with `stop`)
  renderOk : Bool    -- yaml-merge: the merged document converts to the output format
  dumpOk : Bool      -- yaml-set, YAML writer: the dump raises no `AssertionError` (else restore, exit 3)
  statOk : Bool      -- the `exists(bak)` probe succeeds (else `os.path.exists` answers False)
  deriving DecidableEq, Repr, Inhabited

structure Outcome where
  exit : Nat
  phase : Phase
  trace : List Step
  deriving DecidableEq, Repr, Inhabited

/-- yaml-set on a file `t` (not STDIN).  `rc` are the chunks of the restore copy on the
`AssertionError` path (`nc` is then the part of the dump written before the assertion). -/
def runSet (o : Oracle) (fs : FS) (json backup : Bool) (t : Str) (oc nc rc : List Bytes) : Outcome :=
  if !o.argsOk then ⟨2, .parseArgs, []⟩ else
  if !o.validOk then ⟨1, .validate, []⟩ else
  if !o.loadOk then ⟨1, .load, [.openRead t]⟩ else
  if !o.queryOk then ⟨1, .query, [.openRead t]⟩ else
  if !o.checkOk then ⟨20, .check, [.openRead t]⟩ else
  if !o.applyOk then ⟨1, .apply, [.openRead t]⟩ else
  if !json && !o.dumpOk then ⟨3, .save, .openRead t :: restoreSteps (o.statOk && (fs (bakOf t)).isSome) backup t oc nc rc⟩ else
  ⟨0, .done, .openRead t :: saveSteps (o.statOk && (fs (bakOf t)).isSome) (if json then .setJson else .setYaml) backup t oc nc⟩

/-- Where yaml-merge writes. -/
inductive Dest
  | stdout
  | output (o : Str)
  | overwrite (t : Str) (backup : Bool)
  deriving DecidableEq, Repr, Inhabited

/-- The `validateargs` steps of yaml-merge that look at the destination. -/
def mergeValidateSteps : Dest → List Step
  | .stdout => []
  | .output o => [.stat o]
  | .overwrite t _ => [.stat t]

/-- yaml-merge; `ins` are the input files in order; `mergeExit` is the status of the failing
merge (3, 4, 11–14, 31, 32, 41, 42).  With the repair `fixes/C17-1.patch` the documents are
prepared for the dump (`render`) *before* the backup is taken. -/
def runMerge (o : Oracle) (fs : FS) (dest : Dest) (ins : List Str) (mergeExit : Nat)
    (oc nc : List Bytes) : Outcome :=
  let reads := ins.flatMap (fun p => [Step.stat p, .openRead p])
  if !o.argsOk then ⟨2, .parseArgs, []⟩ else
  if !o.validOk then ⟨1, .validate, mergeValidateSteps dest⟩ else
  match dest with
  | .output out =>
    if (fs out).isSome then ⟨1, .validate, [.stat out]⟩ else
    if !o.loadOk then ⟨mergeExit + 1, .load, .stat out :: reads⟩ else
    if !o.applyOk then ⟨mergeExit + 1, .apply, .stat out :: reads⟩ else
    if !o.renderOk then ⟨1, .render, .stat out :: reads⟩ else
    ⟨0, .done, .stat out :: reads ++ outputSteps out nc⟩
  | .overwrite t backup =>
    if !o.loadOk then ⟨mergeExit + 1, .load, .stat t :: reads⟩ else
    if !o.applyOk then ⟨mergeExit + 1, .apply, .stat t :: reads⟩ else
    if !o.renderOk then ⟨1, .render, .stat t :: reads⟩ else
    ⟨0, .done, .stat t :: reads ++ saveSteps (o.statOk && (fs (bakOf t)).isSome) .mergeOverwrite backup t oc nc⟩
  | .stdout =>
    if !o.loadOk then ⟨mergeExit + 1, .load, reads⟩ else
    if !o.applyOk then ⟨mergeExit + 1, .apply, reads⟩ else
    if !o.renderOk then ⟨1, .render, reads⟩ else
    ⟨0, .done, reads⟩

/-- eyaml-rotate-keys on one file: `changed` says whether at least one value was re-encrypted
(`file_changed`); a file without secrets is neither backed up nor written. -/
def runRotateFile (saw : Bool) (isFile loadOk changed backup : Bool) (t : Str) (oc nc : List Bytes) :
    List Step :=
  if !isFile then [.stat t] else
  if !loadOk then [.stat t, .openRead t] else
  if !changed then [.stat t, .openRead t] else
  [.stat t, .openRead t] ++ saveSteps saw .rotate backup t oc nc

end Ypv.Save
