import Ypv.Model.Basic
/-!
# YAML Path segments (mirror of `PathSegmentTypes` × attribute classes)
-/
namespace Ypv

inductive SegType
  | anchor | collector | index | key | search | traverse | keywordSearch | matchAll
  deriving DecidableEq, Repr, Inhabited

/-- `PathSearchMethods` -/
inductive Method
  | contains | endsWith | equals | startsWith | gt | lt | ge | le | regex
  deriving DecidableEq, Repr, Inhabited

/-- `PathSearchKeywords` -/
inductive Keyword
  | distinct | hasChild | name | max | min | parent | unique
  deriving DecidableEq, Repr, Inhabited

/-- `CollectorOperators` -/
inductive CollOp
  | none | add | sub | inter
  deriving DecidableEq, Repr, Inhabited

/-- Segment attributes: `str` (key / anchor name / slice text), `int` (index),
`SearchTerms`, `SearchKeywordTerms`, `CollectorTerms`, `None`. -/
inductive Attrs
  | str (s : Str)
  | int (i : Int)
  | search (inv : Bool) (m : Method) (attr term : Str)
  | keyword (inv : Bool) (k : Keyword) (params : Str)
  | collector (expr : Str) (op : CollOp)
  | none
  deriving DecidableEq, Repr, Inhabited

abbrev Seg := SegType × Attrs

/-- The seven keyword spellings accepted by `PathSearchKeywords.is_keyword`. -/
def keywordOf? (s : Str) : Option Keyword :=
  if s = "distinct".toList then some .distinct
  else if s = "has_child".toList then some .hasChild
  else if s = "name".toList then some .name
  else if s = "max".toList then some .max
  else if s = "min".toList then some .min
  else if s = "parent".toList then some .parent
  else if s = "unique".toList then some .unique
  else none

def Keyword.text : Keyword → Str
  | .distinct => "distinct".toList | .hasChild => "has_child".toList | .name => "name".toList
  | .max => "max".toList | .min => "min".toList | .parent => "parent".toList | .unique => "unique".toList

/-- Operator spellings written by `PathSearchMethods.__str__`. -/
def Method.text : Method → Str
  | .contains => ['%'] | .endsWith => ['$'] | .equals => ['='] | .startsWith => ['^']
  | .gt => ['>'] | .lt => ['<'] | .ge => ['>', '='] | .le => ['<', '='] | .regex => ['=', '~']

def CollOp.text : CollOp → Str
  | .none => [] | .add => ['+'] | .sub => ['-'] | .inter => ['&']

end Ypv
