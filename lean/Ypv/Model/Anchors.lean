import Ypv.Model.Basic
/-!
# Model of anchor-conflict resolution in a merge

`Merger._resolve_anchor_conflicts`, `Merger._calc_unique_anchor`,
`Anchors.scan_for_anchors / rename_anchor / replace_anchor` (yamlpath/merger/merger.py,
yamlpath/common/anchors.py) for documents whose anchors sit on scalars (the property's scope).

Object identity matters here: ruamel's emitter writes `&name` once per *Python object* carrying
the name and `*name` for every further occurrence of that object, so two different objects with one
anchor name serialise to a duplicate anchor.  Every anchored scalar therefore carries a `Tag`
= anchor name + object id.
-/
namespace Ypv.Anchors
open Ypv

structure Tag where
  name : Str
  oid : Nat
  deriving DecidableEq, Repr, Inhabited

/-- Documents with object identities on anchored scalars.  (Sets and anchored containers / keys are
outside this model.) -/
inductive ANode
  | scalar (tag : Option Tag) (v : Scalar)
  | seq (items : List ANode)
  | map (entries : List (Key × ANode))
  deriving Repr, Inhabited

/-- An anchored scalar as found in a document: its tag and value. -/
abbrev Anchored := Tag × Scalar

/-- Every anchored scalar occurrence of a document, in document order. -/
def occs : ANode → List Anchored
  | .scalar (some t) v => [(t, v)]
  | .scalar none _ => []
  | .seq items => occsList items
  | .map es => occsEntries es
where
  occsList : List ANode → List Anchored
    | [] => []
    | n :: ns => occs n ++ occsList ns
  occsEntries : List (Key × ANode) → List Anchored
    | [] => []
    | (_, n) :: es => occs n ++ occsEntries es

/-- `dict[name] = node` for each occurrence in order: key order = first insertion, value = last. -/
def dictSet (d : List (Str × Anchored)) (k : Str) (a : Anchored) : List (Str × Anchored) :=
  match d with
  | [] => [(k, a)]
  | (k', a') :: rest => if k' = k then (k', a) :: rest else (k', a') :: dictSet rest k a

/-- `Anchors.scan_for_anchors` -/
def scan (d : ANode) : List (Str × Anchored) :=
  (occs d).foldl (fun acc a => dictSet acc a.1.name a) []

/-- `Anchors.rename_anchor(dom, old, new)` -/
def rename (old new : Str) : ANode → ANode
  | .scalar (some t) v => if t.name = old then .scalar (some { t with name := new }) v else .scalar (some t) v
  | .scalar none v => .scalar none v
  | .seq items => .seq (renameList old new items)
  | .map es => .map (renameEntries old new es)
where
  renameList (old new : Str) : List ANode → List ANode
    | [] => []
    | n :: ns => rename old new n :: renameList old new ns
  renameEntries (old new : Str) : List (Key × ANode) → List (Key × ANode)
    | [] => []
    | (k, n) :: es => (k, rename old new n) :: renameEntries old new es

/-- `Anchors.replace_anchor(data, old_node, repl_node)`: every node whose anchor name is
`repl_node`'s is replaced by `repl_node` (object and value).  A scalar document root is not a
container and stays as it is. -/
def replaceIn (repl : Anchored) : ANode → ANode
  | .scalar (some t) v => if t.name = repl.1.name then .scalar (some repl.1) repl.2 else .scalar (some t) v
  | .scalar none v => .scalar none v
  | .seq items => .seq (replaceList repl items)
  | .map es => .map (replaceEntries repl es)
where
  replaceList (repl : Anchored) : List ANode → List ANode
    | [] => []
    | n :: ns => replaceIn repl n :: replaceList repl ns
  replaceEntries (repl : Anchored) : List (Key × ANode) → List (Key × ANode)
    | [] => []
    | (k, n) :: es => (k, replaceIn repl n) :: replaceEntries repl es

def replaceAnchor (repl : Anchored) : ANode → ANode
  | .scalar t v => .scalar t v
  | d => replaceIn repl d

/-- One round of `_calc_unique_anchor`'s loop: `anchor = "{}_{}".format(anchor, aid)`. -/
def suffixed (anchor : Str) (aid : Nat) : Str := anchor ++ '_' :: Nat.toDigits 10 aid

/-- `_calc_unique_anchor` with explicit fuel (the number of loop rounds allowed). -/
def calcUniqueFuel : Nat → Str → Nat → List Str → Option Str
  | 0, _, _, _ => none
  | fuel + 1, anchor, aid, known =>
    if known.contains anchor then calcUniqueFuel fuel (suffixed anchor aid) (aid + 1) known
    else some anchor

/-- `_calc_unique_anchor`: `known.length + 1` rounds always suffice (theorem `calcUnique_isSome`). -/
def calcUnique (anchor : Str) (known : List Str) : Option Str :=
  calcUniqueFuel (known.length + 1) anchor 1 known

/-- Numeric view of a scalar for Python's `==` (`True == 1 == 1.0`): mantissa and decimal exponent. -/
def numView : Scalar → Option (Int × Int)
  | .bool b => some (if b then 1 else 0, 0)
  | .int i => some (i, 0)
  | .float m e => some (m, e)
  | _ => none

def eqNum (x y : Int × Int) : Bool :=
  if x.2 ≤ y.2 then x.1 = y.1 * 10 ^ (y.2 - x.2).toNat else x.1 * 10 ^ (x.2 - y.2).toNat = y.1

/-- Python `==` between two scalar values (`lhs_anchor == rhs_anchor`). -/
def pyEq (a b : Scalar) : Bool :=
  match numView a, numView b with
  | some x, some y => eqNum x y
  | none, none => a = b
  | _, _ => false

inductive Mode | stop | left | right | rename
  deriving DecidableEq, Repr, Inhabited

/-- One iteration of the conflict loop for anchor name `n` (present in both scans). -/
def resolveOne (mode : Mode) (known : List Str) (la ra : Anchored) (n : Str)
    (lr : ANode × ANode) : Except Err (ANode × ANode) :=
  if pyEq la.2 ra.2 then
    -- symmetric anchors: left nodes are overwritten with the right-hand object
    .ok (replaceAnchor ra lr.1, lr.2)
  else match mode with
    | .rename => match calcUnique n known with
      | some fresh => .ok (lr.1, rename n fresh lr.2)
      | none => .error (.crash .other)      -- unreachable (`calcUnique_isSome`)
    | .left => .ok (lr.1, replaceIn la lr.2)   -- incl. a scalar-root right document (fix e47a211)
    | .right => .ok (replaceAnchor ra lr.1, lr.2)
    | .stop => .error .merge

def resolveLoop (mode : Mode) (known : List Str) (ls : List (Str × Anchored)) :
    List (Str × Anchored) → ANode × ANode → Except Err (ANode × ANode)
  | [], lr => .ok lr
  | (n, ra) :: rest, lr =>
    match ls.lookup n with
    | none => resolveLoop mode known ls rest lr
    | some la =>
      match resolveOne mode known la ra n lr with
      | .error e => .error e
      | .ok lr' => resolveLoop mode known ls rest lr'

/-- `Merger._resolve_anchor_conflicts(rhs)`: the pair (left document, right document) afterwards. -/
def resolve (mode : Mode) (l r : ANode) : Except Err (ANode × ANode) :=
  let ls := scan l
  let rs := scan r
  let known := ls.map (·.1) ++ (rs.map (·.1)).filter (fun n => !(ls.map (·.1)).contains n)
  resolveLoop mode known ls rs (l, r)

/-- What the emitter does with anchors: walking the document, the first occurrence of an object
defines `&name`, later occurrences of the same object are `*name`.  The list of names *defined*. -/
def defsFrom (seen : List Nat) : List Anchored → List Str
  | [] => []
  | (t, _) :: rest =>
    if seen.contains t.oid then defsFrom seen rest else t.name :: defsFrom (t.oid :: seen) rest

def emittedDefs (d : ANode) : List Str := defsFrom [] (occs d)

end Ypv.Anchors
