import Ypv.Drv.C14
/-! `ypv-driver`: one JSON request per input line, one JSON answer per output line. -/
open Lean (Json)

def dispatch (j : Json) : Except String Json := do
  let op ← j.getObjValAs? String "op"
  match op with
  | "parse" => Ypv.Drv.C14.handle j
  | _ => throw s!"unknown op {op}"

partial def loop (hin hout : IO.FS.Stream) : IO Unit := do
  let line ← hin.getLine
  if line.isEmpty then return ()
  let out : Json := match Json.parse line with
    | .error e => Json.mkObj [("driver_error", Json.str e)]
    | .ok j => match dispatch j with
      | .ok r => r
      | .error e => Json.mkObj [("driver_error", Json.str e)]
  hout.putStrLn out.compress
  loop hin hout

def main : IO Unit := do
  let hin ← IO.getStdin
  let hout ← IO.getStdout
  loop hin hout
  hout.flush
