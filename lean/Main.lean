import Ypv.Drv.C01
import Ypv.Drv.C02
import Ypv.Drv.C03
import Ypv.Drv.C04
import Ypv.Drv.C05
import Ypv.Drv.C06
import Ypv.Drv.C07
import Ypv.Drv.C08
import Ypv.Drv.C09
import Ypv.Drv.C10
import Ypv.Drv.C11
import Ypv.Drv.C12
import Ypv.Drv.C13
import Ypv.Drv.C14
import Ypv.Drv.C15
import Ypv.Drv.C16
import Ypv.Drv.C17
import Ypv.Drv.C18
import Ypv.Drv.C19
/-! `ypv-driver`: one JSON request per input line, one JSON answer per output line.
A request is `{"op": "<Cxx>.<name>", ...}` (or the legacy `"parse"`); it is routed to
`Ypv.Drv.<Cxx>.handle name request`. -/
open Lean (Json)

def dispatch (j : Json) : Except String Json := do
  let op ← j.getObjValAs? String "op"
  if op = "parse" then Ypv.Drv.C14.handle j else
  match op.splitOn "." with
  | ["C01", name] => Ypv.Drv.C01.handle name j
  | ["C02", name] => Ypv.Drv.C02.handle name j
  | ["C03", name] => Ypv.Drv.C03.handle name j
  | ["C04", name] => Ypv.Drv.C04.handle name j
  | ["C05", name] => Ypv.Drv.C05.handle name j
  | ["C06", name] => Ypv.Drv.C06.handle name j
  | ["C07", name] => Ypv.Drv.C07.handle name j
  | ["C08", name] => Ypv.Drv.C08.handle name j
  | ["C09", name] => Ypv.Drv.C09.handle name j
  | ["C10", name] => Ypv.Drv.C10.handle name j
  | ["C11", name] => Ypv.Drv.C11.handle name j
  | ["C12", name] => Ypv.Drv.C12.handle name j
  | ["C13", name] => Ypv.Drv.C13.handle name j
  | ["C14", _] => Ypv.Drv.C14.handle j
  | ["C15", name] => Ypv.Drv.C15.handle name j
  | ["C16", name] => Ypv.Drv.C16.handle name j
  | ["C17", name] => Ypv.Drv.C17.handle name j
  | ["C18", name] => Ypv.Drv.C18.handle name j
  | ["C19", name] => Ypv.Drv.C19.handle name j
  | _ => throw s!"unknown op {op}"

partial def loop (hin hout : IO.FS.Stream) : IO Unit := do
  let line ← hin.getLine
  if line.isEmpty then return ()
  let out : Json := match Json.parse line with
    | .error e => Json.mkObj [("driver_error", Json.str e)]
    | .ok j => match dispatch j with
      | .ok r => r
      | .error e => Json.mkObj [("driver_error", Json.str e)]
  hout.putStrLn out.compress
  loop hin hout

def main : IO Unit := do
  let hin ← IO.getStdin
  let hout ← IO.getStdout
  loop hin hout
  hout.flush
