import Ypv.Model.Basic
import Ypv.Model.Path
import Ypv.Model.Py
import Ypv.Model.Parser
import Ypv.Props.C14
